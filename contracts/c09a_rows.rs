//! C09 clause (a): "atomic exchange, compare-exchange and fetch-add are indivisible" — at the level where the Rust code has a say:
//! the instruction the baseline generator's macro assembler (dora-cannon-compiler/src/masm/x64.rs) selects.
//! Compiled as a child module of `masm` in a scratch copy of the crate (kx unit `c09a`). For every register choice:
//! the emitted bytes are exactly the stated instruction sequence; the ONLY instruction with a memory destination is an XCHG with
//! memory (implicitly locked) or a LOCK-prefixed CMPXCHG / XADD on [address] with the operand size the method names.
//! That a LOCK-prefixed RMW / XCHG-with-memory is indivisible is the processor's guarantee (trusted).
use super::*;
use crate::vp::Src;
use crate::x64dec::{decode, Insn, Mn, Operand};
use dora_asm::x64::AssemblerX64;

fn masm() -> MacroAssembler {
    // MacroAssembler::new() asks cpuid for AVX2 (not executable under CBMC); none of the methods below depends on it
    MacroAssembler {
        asm: AssemblerX64::new(false),
        bailouts: Vec::new(),
        embedded_constants: Vec::new(),
        jump_tables: Vec::new(),
        gcpoints: GcPointTable::new(),
        comments: CommentTable::new(),
        positions: LocationTable::new(),
        relocations: Vec::new(),
        scratch_registers: ScratchRegisters::new(),
    }
}
fn reg(s: &mut Src) -> (Reg, u8) { let k = s.below(16); (Reg(k), k) }
fn gpr(n: u8, size: u8) -> Operand { crate::x64dec::gpr(n, size) }
fn mem(base: u8, size: u8) -> Operand { crate::x64dec::mem(base as i8, -1, 1, 0, size) }
fn bytes(m: MacroAssembler) -> Vec<u8> { m.asm.finalize(1).code() }

fn expect1(code: &[u8], want: Insn) {
    let got = decode(code);
    crate::vp_note!("bytes {:02x?} got {:?} want {:?}", code, got, want);
    crate::vp_check!(got == Some((want, code.len())), "exactly the one stated instruction");
}
fn expect2(code: &[u8], w1: Insn, w2: Insn) {
    let g1 = decode(code);
    crate::vp_note!("bytes {:02x?} first {:?}", code, g1);
    match g1 {
        Some((i1, n1)) => {
            crate::vp_check!(i1 == w1, "first instruction as stated");
            crate::vp_check!(n1 <= code.len(), "first length");
            if n1 <= code.len() {
                let g2 = decode(&code[n1..]);
                crate::vp_note!("second {:?} want {:?}", g2, w2);
                crate::vp_check!(g2 == Some((w2, code.len() - n1)), "second instruction as stated, nothing more");
            }
        }
        None => { crate::vp_check!(false, "first instruction decodes"); }
    }
}

macro_rules! store_body { ($s:ident, $m:ident, $size:expr) => {{
    let (v, vn) = reg($s); let (a, an) = reg($s);
    let mut m = masm();
    m.$m(v, a);
    expect1(&bytes(m), Insn::op2(Mn::Xchg, $size, mem(an, $size), gpr(vn, $size)));
}}; }
crate::vp_harness!(store_int8_synchronized, unwind = 8, |s| { store_body!(s, store_int8_synchronized, 8) });
crate::vp_harness!(store_int32_synchronized, unwind = 8, |s| { store_body!(s, store_int32_synchronized, 32) });
crate::vp_harness!(store_int64_synchronized, unwind = 8, |s| { store_body!(s, store_int64_synchronized, 64) });

macro_rules! exchange_body { ($s:ident, $m:ident, $size:expr) => {{
    let (old, on) = reg($s); let (new, nn) = reg($s); let (a, an) = reg($s);
    let mut m = masm();
    m.$m(old, new, a);
    expect2(&bytes(m), Insn::op2(Mn::Xchg, $size, mem(an, $size), gpr(nn, $size)), Insn::op2(Mn::Mov, $size, gpr(on, $size), gpr(nn, $size)));
}}; }
crate::vp_harness!(exchange_int32_synchronized, unwind = 8, |s| { exchange_body!(s, exchange_int32_synchronized, 32) });
crate::vp_harness!(exchange_int64_synchronized, unwind = 8, |s| { exchange_body!(s, exchange_int64_synchronized, 64) });

macro_rules! cmpxchg_body { ($s:ident, $m:ident, $size:expr) => {{
    let (exp, en) = reg($s); let (new, nn) = reg($s); let (a, an) = reg($s);
    let mut m = masm();
    let r = m.$m(exp, new, a);
    crate::vp_check!(en == 0 && r == Reg(0), "comparand and result register is RAX");
    expect1(&bytes(m), Insn::op2(Mn::Cmpxchg, $size, mem(an, $size), gpr(nn, $size)).with_lock());
}}; }
crate::vp_harness!(compare_exchange_int32_synchronized, unwind = 8, |s| { cmpxchg_body!(s, compare_exchange_int32_synchronized, 32) });
crate::vp_harness!(compare_exchange_int64_synchronized, unwind = 8, |s| { cmpxchg_body!(s, compare_exchange_int64_synchronized, 64) });

macro_rules! xadd_body { ($s:ident, $m:ident, $size:expr) => {{
    let (prev, _pn) = reg($s); let (val, vn) = reg($s); let (a, an) = reg($s);
    let mut m = masm();
    let r = m.$m(prev, val, a);
    crate::vp_check!(r == val, "previous value delivered in the value register");
    expect1(&bytes(m), Insn::op2(Mn::Xadd, $size, mem(an, $size), gpr(vn, $size)).with_lock());
}}; }
crate::vp_harness!(fetch_add_int32_synchronized, unwind = 8, |s| { xadd_body!(s, fetch_add_int32_synchronized, 32) });
crate::vp_harness!(fetch_add_int64_synchronized, unwind = 8, |s| { xadd_body!(s, fetch_add_int64_synchronized, 64) });
