//! Contract rows for the public instruction methods of AssemblerX64 (dora-asm/src/x64.rs).
//! One row per method: operands over the full type domain, call on the REAL assembler, postcondition
//!     returned  =>  decode(bytes) == Some((requested instruction, bytes.len()))
//! with the reference decoder spec/x64dec.rs. An operand that cannot be encoded must be refused by a
//! panic inside the assembler; a silently truncated / substituted field shows up as a decode mismatch.
//!
//! The request is built from the method NAME and the repository's operand convention only:
//!   xxx_rr(dest, src)   _ri(dest, imm)   _ra(dest_reg, src_address)   _ar(dest_address, src_reg)
//!   _ai(address, imm)   _rx/_xr (gpr <-> xmm)   suffix b/w/l/q = 8/16/32/64-bit operand size,
//!   v*(dest, lhs, rhs) = VEX three-operand form, *_rl = RIP-relative address of a label.
//! Immediates: the caller's i64 must be exactly the value the instruction operates on — for a 64-bit
//! operation the (sign-extended) immediate must equal it; for an 8/32-bit operation the value must be
//! representable in 8/32 bits (signed or unsigned reading, the unit tests of x64.rs use both) and the
//! encoded bits must be those bits. Shift counts and rounding modes are plain bytes (0..=255).
use crate::vp::Src;
use crate::x64dec as dec;
use crate::x64dec::{decode, imm_for, imm_u8_for, mem_rip, mem_sized, Insn, Mn, Operand, CL};
use dora_asm::x64::*;
use dora_asm::Label;

/// public methods of `impl AssemblerX64` that do not emit one instruction (no contract row)
pub const NOT_INSTRUCTION_METHODS: &[&str] = &[
    "new",
    "create_label",
    "create_and_bind_label",
    "bind_label",
    "offset",
    "finalize",
    "align_to",
    "position",
    "set_position",
    "set_position_end",
    "emit_u8",
    "emit_u32",
    "emit_u64",
    "emit_u128",
];

// ---- operand domains -------------------------------------------------------------------------

/// any of the 16 general registers; the number is kept for the request
pub fn gpr(s: &mut Src) -> (Register, u8) {
    let n = s.below(16);
    (Register::new(n), n)
}
/// any of xmm0..xmm15
pub fn xmm(s: &mut Src) -> (XmmRegister, u8) {
    let n = s.below(16);
    (XmmRegister::new(n), n)
}
/// any i64
pub fn imm(s: &mut Src) -> (Immediate, i64) {
    let v = s.i64();
    (Immediate(v), v)
}
/// every Condition variant with its SDM condition-code number (appendix B, table B-10)
pub fn cond(s: &mut Src) -> (Condition, u8) {
    match s.below(28) {
        0 => (Condition::Overflow, 0),
        1 => (Condition::NoOverflow, 1),
        2 => (Condition::Below, 2),
        3 => (Condition::NeitherAboveNorEqual, 2),
        4 => (Condition::NotBelow, 3),
        5 => (Condition::AboveOrEqual, 3),
        6 => (Condition::Equal, 4),
        7 => (Condition::Zero, 4),
        8 => (Condition::NotEqual, 5),
        9 => (Condition::NotZero, 5),
        10 => (Condition::BelowOrEqual, 6),
        11 => (Condition::NotAbove, 6),
        12 => (Condition::NeitherBelowNorEqual, 7),
        13 => (Condition::Above, 7),
        14 => (Condition::Sign, 8),
        15 => (Condition::NoSign, 9),
        16 => (Condition::Parity, 10),
        17 => (Condition::ParityEven, 10),
        18 => (Condition::NoParity, 11),
        19 => (Condition::ParityOdd, 11),
        20 => (Condition::Less, 12),
        21 => (Condition::NeitherGreaterNorEqual, 12),
        22 => (Condition::NotLess, 13),
        23 => (Condition::GreaterOrEqual, 13),
        24 => (Condition::LessOrEqual, 14),
        25 => (Condition::NotGreater, 14),
        26 => (Condition::NeitherLessNorEqual, 15),
        _ => (Condition::Greater, 15),
    }
}
pub fn scale(s: &mut Src) -> (ScaleFactor, u8) {
    match s.below(4) {
        0 => (ScaleFactor::One, 1),
        1 => (ScaleFactor::Two, 2),
        2 => (ScaleFactor::Four, 4),
        _ => (ScaleFactor::Eight, 8),
    }
}
/// Any address the five public constructors can describe, chosen by a symbolic selector:
/// 0 reg(base)  1 offset(base, disp)  2 index(index, factor, disp)  3 array(base, index, factor, disp)  4 rip(disp)
/// with any base/index register, any factor, any i32 displacement. (rsp cannot be an index register on
/// x86: the constructor may refuse it.) All five draws are made unconditionally so that the operand list
/// of a counterexample has a fixed layout: [selector, base, index, factor, disp].
pub fn addr(s: &mut Src) -> (Address, Operand) {
    let sel = s.below(5);
    addr_of(s, sel)
}
pub fn addr_of(s: &mut Src, sel: u8) -> (Address, Operand) {
    let (b, bn) = gpr(s);
    let (i, xn) = gpr(s);
    let (f, fv) = scale(s);
    let d = s.i32();
    match sel {
        0 => (Address::reg(b), dec::mem(bn as i8, -1, 1, 0, 0)),
        1 => (Address::offset(b, d), dec::mem(bn as i8, -1, 1, d, 0)),
        2 => (Address::index(i, f, d), dec::mem(-1, xn as i8, fv, d, 0)),
        3 => (Address::array(b, i, f, d), dec::mem(bn as i8, xn as i8, fv, d, 0)),
        _ => (Address::rip(d), mem_rip(d, 0)),
    }
}

// ---- conclusion of a row -----------------------------------------------------------------------

#[cfg(not(kani))]
fn hex(b: &[u8]) -> String {
    b.iter().map(|x| format!("{:02x}", x)).collect::<Vec<_>>().join(" ")
}

/// `code[at..]` must decode to exactly `want`, consuming `len` bytes.
/// (The vp_check message must stay short: Kani prints `concat!("VP: ", msg)` over several lines when it is long
/// and the driver then no longer recognises the "VP:" marker.)
pub fn conclude(code: &[u8], at: usize, len: usize, want: Insn, fill_before: usize, fill_after: usize) {
    let got = if at <= code.len() { decode(&code[at..]) } else { None };
    crate::vp_note!(
        "bytes={} osz={} got={} want={} fill={},{}",
        hex(code),
        want.opsize,
        match got {
            Some((i, _)) => dec::render(&i),
            None => "<undecodable>".to_string(),
        },
        dec::render(&want),
        fill_before,
        fill_after
    );
    #[cfg(not(kani))]
    if got != Some((want, len)) {
        crate::vp_note!("decoded {:?} / requested {:?} with length {}", got, want, len);
    }
    crate::vp_check!(got == Some((want, len)), "bytes decode to exactly the request");
}
/// single-instruction rows: everything that was emitted is the instruction
pub fn finish(a: AssemblerX64, want: Insn) {
    let code = a.finalize(1).code();
    conclude(&code, 0, code.len(), want, 0, 0);
}

/// Rows with an `Address` operand run the method in OVERWRITE mode: the buffer is pre-filled with 17 nop bytes
/// and the position reset to 0, so every `emit_*` of the method overwrites `code[position]` instead of pushing
/// (same public API: `emit_u64`, `emit_u8`, `set_position`; `AssemblerBuffer::emit_*` writes the same value in
/// both modes). Reason: with a symbolic number of address bytes every `Vec::push` at a symbolic length drags the
/// reallocation path into the formula (425 s instead of 207 s for `movl_ar`). The instruction is then
/// `code[0..position()]`. Register-only rows use the normal append mode.
pub fn new_prefilled(avx: bool) -> AssemblerX64 {
    let mut a = AssemblerX64::new(avx);
    a.emit_u64(0x9090909090909090);
    a.emit_u64(0x9090909090909090);
    a.emit_u8(0x90);
    a.set_position(0);
    a
}
pub fn finish_pre(a: AssemblerX64, want: Insn) {
    let n = a.position();
    let code = a.finalize(1).code();
    let len = if n <= code.len() { n } else { code.len() };
    conclude(&code[..len], 0, len, want, 0, 0);
}

// ---- row bodies ---------------------------------------------------------------------------------

pub fn r0(_s: &mut Src, mn: Mn, size: u16, f: impl FnOnce(&mut AssemblerX64)) {
    let mut a = AssemblerX64::new(false);
    f(&mut a);
    finish(a, Insn::op0(mn, size));
}
pub fn r1(s: &mut Src, mn: Mn, size: u8, f: impl FnOnce(&mut AssemblerX64, Register)) {
    let (d, dn) = gpr(s);
    let mut a = AssemblerX64::new(false);
    f(&mut a, d);
    finish(a, Insn::op1(mn, size as u16, dec::gpr(dn, size)));
}
/// `op dest, src`; dsize = operand size of the instruction and of dest, ssize = size of src
pub fn rr(s: &mut Src, mn: Mn, dsize: u8, ssize: u8, f: impl FnOnce(&mut AssemblerX64, Register, Register)) {
    let (d, dn) = gpr(s);
    let (r, rn) = gpr(s);
    let mut a = AssemblerX64::new(false);
    f(&mut a, d, r);
    finish(a, Insn::op2(mn, dsize as u16, dec::gpr(dn, dsize), dec::gpr(rn, ssize)));
}
pub fn cmov(s: &mut Src, size: u8, f: impl FnOnce(&mut AssemblerX64, Condition, Register, Register)) {
    let (c, cc) = cond(s);
    let (d, dn) = gpr(s);
    let (r, rn) = gpr(s);
    let mut a = AssemblerX64::new(false);
    f(&mut a, c, d, r);
    finish(a, Insn::op2(Mn::Cmovcc, size as u16, dec::gpr(dn, size), dec::gpr(rn, size)).with_cc(cc));
}
pub fn setcc(s: &mut Src, f: impl FnOnce(&mut AssemblerX64, Condition, Register)) {
    let (c, cc) = cond(s);
    let (d, dn) = gpr(s);
    let mut a = AssemblerX64::new(false);
    f(&mut a, c, d);
    finish(a, Insn::op1(Mn::Setcc, 8, dec::gpr(dn, 8)).with_cc(cc));
}
pub fn ri(s: &mut Src, mn: Mn, size: u8, f: impl FnOnce(&mut AssemblerX64, Register, Immediate)) {
    let (d, dn) = gpr(s);
    let (i, v) = imm(s);
    let mut a = AssemblerX64::new(false);
    f(&mut a, d, i);
    finish(a, Insn::op2(mn, size as u16, dec::gpr(dn, size), imm_for(v, size)));
}
pub fn shift_i(s: &mut Src, mn: Mn, size: u8, f: impl FnOnce(&mut AssemblerX64, Register, Immediate)) {
    let (d, dn) = gpr(s);
    let (i, v) = imm(s);
    let mut a = AssemblerX64::new(false);
    f(&mut a, d, i);
    finish(a, Insn::op2(mn, size as u16, dec::gpr(dn, size), imm_u8_for(v)));
}
pub fn shift_cl(s: &mut Src, mn: Mn, size: u8, f: impl FnOnce(&mut AssemblerX64, Register)) {
    let (d, dn) = gpr(s);
    let mut a = AssemblerX64::new(false);
    f(&mut a, d);
    finish(a, Insn::op2(mn, size as u16, dec::gpr(dn, size), CL));
}
pub fn ar(s: &mut Src, mn: Mn, size: u8, lock: bool, f: impl FnOnce(&mut AssemblerX64, Address, Register)) {
    let (m, mq) = addr(s);
    let (r, rn) = gpr(s);
    let mut a = new_prefilled(false);
    f(&mut a, m, r);
    let want = Insn::op2(mn, size as u16, mem_sized(mq, size), dec::gpr(rn, size));
    finish_pre(a, if lock { want.with_lock() } else { want });
}
/// dsize = operand size / size of the destination register, msize = size of the memory access (0 for lea)
pub fn ra(s: &mut Src, mn: Mn, dsize: u8, msize: u8, f: impl FnOnce(&mut AssemblerX64, Register, Address)) {
    let (d, dn) = gpr(s);
    let (m, mq) = addr(s);
    let mut a = new_prefilled(false);
    f(&mut a, d, m);
    finish_pre(a, Insn::op2(mn, dsize as u16, dec::gpr(dn, dsize), mem_sized(mq, msize)));
}
pub fn ai(s: &mut Src, mn: Mn, size: u8, f: impl FnOnce(&mut AssemblerX64, Address, Immediate)) {
    let (m, mq) = addr(s);
    let (i, v) = imm(s);
    let mut a = new_prefilled(false);
    f(&mut a, m, i);
    finish_pre(a, Insn::op2(mn, size as u16, mem_sized(mq, size), imm_for(v, size)));
}

// SSE (legacy encoding): AssemblerX64::new(false)
pub fn xx(s: &mut Src, mn: Mn, f: impl FnOnce(&mut AssemblerX64, XmmRegister, XmmRegister)) {
    let (d, dn) = xmm(s);
    let (r, rn) = xmm(s);
    let mut a = AssemblerX64::new(false);
    f(&mut a, d, r);
    finish(a, Insn::op2(mn, 128, Operand::Xmm(dn), Operand::Xmm(rn)));
}
pub fn xg(s: &mut Src, mn: Mn, gsize: u8, f: impl FnOnce(&mut AssemblerX64, XmmRegister, Register)) {
    let (d, dn) = xmm(s);
    let (r, rn) = gpr(s);
    let mut a = AssemblerX64::new(false);
    f(&mut a, d, r);
    finish(a, Insn::op2(mn, 128, Operand::Xmm(dn), dec::gpr(rn, gsize)));
}
pub fn gx(s: &mut Src, mn: Mn, gsize: u8, f: impl FnOnce(&mut AssemblerX64, Register, XmmRegister)) {
    let (d, dn) = gpr(s);
    let (r, rn) = xmm(s);
    let mut a = AssemblerX64::new(false);
    f(&mut a, d, r);
    finish(a, Insn::op2(mn, 128, dec::gpr(dn, gsize), Operand::Xmm(rn)));
}
pub fn xxi(s: &mut Src, mn: Mn, f: impl FnOnce(&mut AssemblerX64, XmmRegister, XmmRegister, u8)) {
    let (d, dn) = xmm(s);
    let (r, rn) = xmm(s);
    let mode = s.u8();
    let mut a = AssemblerX64::new(false);
    f(&mut a, d, r, mode);
    finish(a, Insn::op3(mn, 128, Operand::Xmm(dn), Operand::Xmm(rn), Operand::Imm(mode as i64)));
}
/// xmm <- memory (legacy or VEX two-operand form)
pub fn xa(s: &mut Src, avx: bool, mn: Mn, msize: u8, f: impl FnOnce(&mut AssemblerX64, XmmRegister, Address)) {
    let (d, dn) = xmm(s);
    let (m, mq) = addr(s);
    let mut a = new_prefilled(avx);
    f(&mut a, d, m);
    let want = Insn::op2(mn, 128, Operand::Xmm(dn), mem_sized(mq, msize));
    finish_pre(a, if avx { want.with_vex() } else { want });
}
/// memory <- xmm
pub fn ax(s: &mut Src, avx: bool, mn: Mn, msize: u8, f: impl FnOnce(&mut AssemblerX64, Address, XmmRegister)) {
    let (m, mq) = addr(s);
    let (r, rn) = xmm(s);
    let mut a = new_prefilled(avx);
    f(&mut a, m, r);
    let want = Insn::op2(mn, 128, mem_sized(mq, msize), Operand::Xmm(rn));
    finish_pre(a, if avx { want.with_vex() } else { want });
}

// VEX encoding: AssemblerX64::new(true)
pub fn vxxx(s: &mut Src, mn: Mn, f: impl FnOnce(&mut AssemblerX64, XmmRegister, XmmRegister, XmmRegister)) {
    let (d, dn) = xmm(s);
    let (l, ln) = xmm(s);
    let (r, rn) = xmm(s);
    let mut a = AssemblerX64::new(true);
    f(&mut a, d, l, r);
    finish(a, Insn::op3(mn, 128, Operand::Xmm(dn), Operand::Xmm(ln), Operand::Xmm(rn)).with_vex());
}
pub fn vxxg(s: &mut Src, mn: Mn, gsize: u8, f: impl FnOnce(&mut AssemblerX64, XmmRegister, XmmRegister, Register)) {
    let (d, dn) = xmm(s);
    let (l, ln) = xmm(s);
    let (r, rn) = gpr(s);
    let mut a = AssemblerX64::new(true);
    f(&mut a, d, l, r);
    finish(a, Insn::op3(mn, 128, Operand::Xmm(dn), Operand::Xmm(ln), dec::gpr(rn, gsize)).with_vex());
}
pub fn vxxxi(s: &mut Src, mn: Mn, f: impl FnOnce(&mut AssemblerX64, XmmRegister, XmmRegister, XmmRegister, u8)) {
    let (d, dn) = xmm(s);
    let (l, ln) = xmm(s);
    let (r, rn) = xmm(s);
    let mode = s.u8();
    let mut a = AssemblerX64::new(true);
    f(&mut a, d, l, r, mode);
    finish(a, Insn::op4(mn, 128, Operand::Xmm(dn), Operand::Xmm(ln), Operand::Xmm(rn), Operand::Imm(mode as i64)).with_vex());
}
pub fn vxxa(s: &mut Src, mn: Mn, msize: u8, f: impl FnOnce(&mut AssemblerX64, XmmRegister, XmmRegister, Address)) {
    let (d, dn) = xmm(s);
    let (l, ln) = xmm(s);
    let (m, mq) = addr(s);
    let mut a = new_prefilled(true);
    f(&mut a, d, l, m);
    finish_pre(a, Insn::op3(mn, 128, Operand::Xmm(dn), Operand::Xmm(ln), mem_sized(mq, msize)).with_vex());
}
pub fn vgx(s: &mut Src, mn: Mn, gsize: u8, f: impl FnOnce(&mut AssemblerX64, Register, XmmRegister)) {
    let (d, dn) = gpr(s);
    let (r, rn) = xmm(s);
    let mut a = AssemblerX64::new(true);
    f(&mut a, d, r);
    finish(a, Insn::op2(mn, 128, dec::gpr(dn, gsize), Operand::Xmm(rn)).with_vex());
}
pub fn vxg(s: &mut Src, mn: Mn, gsize: u8, f: impl FnOnce(&mut AssemblerX64, XmmRegister, Register)) {
    let (d, dn) = xmm(s);
    let (r, rn) = gpr(s);
    let mut a = AssemblerX64::new(true);
    f(&mut a, d, r);
    finish(a, Insn::op2(mn, 128, Operand::Xmm(dn), dec::gpr(rn, gsize)).with_vex());
}
pub fn vxx(s: &mut Src, mn: Mn, f: impl FnOnce(&mut AssemblerX64, XmmRegister, XmmRegister)) {
    let (d, dn) = xmm(s);
    let (r, rn) = xmm(s);
    let mut a = AssemblerX64::new(true);
    f(&mut a, d, r);
    finish(a, Insn::op2(mn, 128, Operand::Xmm(dn), Operand::Xmm(rn)).with_vex());
}

// Label forms. The closure draws its operands, calls the method with the label and returns the request with
// a placeholder target (Rel(0) or a RIP-relative Mem with disp 0); the body fills in the displacement
// that makes   position_of_insn + length + displacement == position the label is bound to.
fn with_target(mut want: Insn, t: i32) -> Insn {
    want.ops[0] = retarget(want.ops[0], t);
    want.ops[1] = retarget(want.ops[1], t);
    want.ops[2] = retarget(want.ops[2], t);
    want.ops[3] = retarget(want.ops[3], t);
    want
}
fn retarget(o: Operand, t: i32) -> Operand {
    match o {
        Operand::Rel(_) => Operand::Rel(t),
        Operand::Mem { rip: true, size, .. } => mem_rip(t, size),
        o => o,
    }
}
/// Label rows also run on the pre-filled buffer (see `new_prefilled`): "p filler bytes before" / "q filler bytes
/// after" are the nop bytes already in the buffer, reached with `set_position` — no emission loop is needed.
/// Forward: label still unbound when the instruction is emitted at 0; bound q (0..=4) bytes after its end.
pub fn label_fwd(s: &mut Src, avx: bool, f: impl FnOnce(&mut AssemblerX64, Label, &mut Src) -> Insn) {
    let q = s.below(5) as usize;
    let mut a = new_prefilled(avx);
    let l = a.create_label();
    let want0 = f(&mut a, l, s);
    let n = a.position();
    a.set_position(n + q);
    a.bind_label(l);
    let code = a.finalize(1).code();
    // instruction at 0 with length n, label at n + q: displacement q
    let end = if n <= code.len() { n } else { code.len() };
    conclude(&code[..end], 0, end, with_target(want0, q as i32), 0, 0);
}
/// Backward: label bound at 0, then p (0..=4) filler bytes, then the instruction.
pub fn label_bwd(s: &mut Src, avx: bool, f: impl FnOnce(&mut AssemblerX64, Label, &mut Src) -> Insn) {
    let p = s.below(5) as usize;
    let mut a = new_prefilled(avx);
    let l = a.create_and_bind_label();
    a.set_position(p);
    let want0 = f(&mut a, l, s);
    let n = a.position();
    let code = a.finalize(1).code();
    // label at 0, instruction at p, ending at n: displacement -n
    let end = if n <= code.len() { n } else { code.len() };
    let len = if end >= p { end - p } else { 0 };
    conclude(&code[..end], p, len, with_target(want0, 0 - (end as i32)), p, 0);
}

/// `__sweep` rows are EXECUTED only (seeded distances 0..600 over the short/near boundary at 127/128), never given to CBMC:
/// a symbolic number of filler bytes makes the formula explode, and the unbounded statement is proved in Verus
/// (contracts/c07_jumps.vspec). Their purpose is a concrete failing distance when that proof breaks.
pub fn label_sweep_fwd(s: &mut Src, f: impl FnOnce(&mut AssemblerX64, Label, &mut Src) -> Insn) {
    let d = (s.u16() % 600) as usize;
    let mut a = AssemblerX64::new(false);
    let l = a.create_label();
    let want0 = f(&mut a, l, s);
    let n = a.position();
    for _ in 0..d {
        a.nop();
    }
    a.bind_label(l);
    let code = a.finalize(1).code();
    let end = if n <= code.len() { n } else { code.len() };
    conclude(&code[..end], 0, end, with_target(want0, d as i32), 0, d);
}
pub fn label_sweep_bwd(s: &mut Src, f: impl FnOnce(&mut AssemblerX64, Label, &mut Src) -> Insn) {
    let d = (s.u16() % 600) as usize;
    let mut a = AssemblerX64::new(false);
    let l = a.create_and_bind_label();
    for _ in 0..d {
        a.nop();
    }
    let want0 = f(&mut a, l, s);
    let code = a.finalize(1).code();
    let end = code.len();
    let len = if end >= d { end - d } else { 0 };
    conclude(&code, d, len, with_target(want0, 0 - (end as i32)), d, 0);
}

// ==================================================================================================
// rows (row name == method name; `__fwd` / `__bwd` variants for label forms)

// ---- integer register-register ----
crate::vp_harness!(addl_rr, |s| { rr(s, Mn::Add, 32, 32, |a, d, r| a.addl_rr(d, r)) });
crate::vp_harness!(addq_rr, |s| { rr(s, Mn::Add, 64, 64, |a, d, r| a.addq_rr(d, r)) });
crate::vp_harness!(andl_rr, |s| { rr(s, Mn::And, 32, 32, |a, d, r| a.andl_rr(d, r)) });
crate::vp_harness!(andq_rr, |s| { rr(s, Mn::And, 64, 64, |a, d, r| a.andq_rr(d, r)) });
crate::vp_harness!(cmpb_rr, |s| { rr(s, Mn::Cmp, 8, 8, |a, d, r| a.cmpb_rr(d, r)) });
crate::vp_harness!(cmpl_rr, |s| { rr(s, Mn::Cmp, 32, 32, |a, d, r| a.cmpl_rr(d, r)) });
crate::vp_harness!(cmpq_rr, |s| { rr(s, Mn::Cmp, 64, 64, |a, d, r| a.cmpq_rr(d, r)) });
crate::vp_harness!(imull_rr, |s| { rr(s, Mn::Imul, 32, 32, |a, d, r| a.imull_rr(d, r)) });
crate::vp_harness!(imulq_rr, |s| { rr(s, Mn::Imul, 64, 64, |a, d, r| a.imulq_rr(d, r)) });
crate::vp_harness!(movl_rr, |s| { rr(s, Mn::Mov, 32, 32, |a, d, r| a.movl_rr(d, r)) });
crate::vp_harness!(movq_rr, |s| { rr(s, Mn::Mov, 64, 64, |a, d, r| a.movq_rr(d, r)) });
crate::vp_harness!(orl_rr, |s| { rr(s, Mn::Or, 32, 32, |a, d, r| a.orl_rr(d, r)) });
crate::vp_harness!(orq_rr, |s| { rr(s, Mn::Or, 64, 64, |a, d, r| a.orq_rr(d, r)) });
crate::vp_harness!(subl_rr, |s| { rr(s, Mn::Sub, 32, 32, |a, d, r| a.subl_rr(d, r)) });
crate::vp_harness!(subq_rr, |s| { rr(s, Mn::Sub, 64, 64, |a, d, r| a.subq_rr(d, r)) });
crate::vp_harness!(testb_rr, |s| { rr(s, Mn::Test, 8, 8, |a, d, r| a.testb_rr(d, r)) });
crate::vp_harness!(testl_rr, |s| { rr(s, Mn::Test, 32, 32, |a, d, r| a.testl_rr(d, r)) });
crate::vp_harness!(testq_rr, |s| { rr(s, Mn::Test, 64, 64, |a, d, r| a.testq_rr(d, r)) });
crate::vp_harness!(xorl_rr, |s| { rr(s, Mn::Xor, 32, 32, |a, d, r| a.xorl_rr(d, r)) });
crate::vp_harness!(xorq_rr, |s| { rr(s, Mn::Xor, 64, 64, |a, d, r| a.xorq_rr(d, r)) });
crate::vp_harness!(lzcntl_rr, |s| { rr(s, Mn::Lzcnt, 32, 32, |a, d, r| a.lzcntl_rr(d, r)) });
crate::vp_harness!(lzcntq_rr, |s| { rr(s, Mn::Lzcnt, 64, 64, |a, d, r| a.lzcntq_rr(d, r)) });
crate::vp_harness!(popcntl_rr, |s| { rr(s, Mn::Popcnt, 32, 32, |a, d, r| a.popcntl_rr(d, r)) });
crate::vp_harness!(popcntq_rr, |s| { rr(s, Mn::Popcnt, 64, 64, |a, d, r| a.popcntq_rr(d, r)) });
crate::vp_harness!(tzcntl_rr, |s| { rr(s, Mn::Tzcnt, 32, 32, |a, d, r| a.tzcntl_rr(d, r)) });
crate::vp_harness!(tzcntq_rr, |s| { rr(s, Mn::Tzcnt, 64, 64, |a, d, r| a.tzcntq_rr(d, r)) });
crate::vp_harness!(movsxbl_rr, |s| { rr(s, Mn::Movsx, 32, 8, |a, d, r| a.movsxbl_rr(d, r)) });
crate::vp_harness!(movsxbq_rr, |s| { rr(s, Mn::Movsx, 64, 8, |a, d, r| a.movsxbq_rr(d, r)) });
crate::vp_harness!(movsxlq_rr, |s| { rr(s, Mn::Movsxd, 64, 32, |a, d, r| a.movsxlq_rr(d, r)) });
crate::vp_harness!(movzxb_rr, |s| { rr(s, Mn::Movzx, 32, 8, |a, d, r| a.movzxb_rr(d, r)) });
crate::vp_harness!(cmovl, |s| { cmov(s, 32, |a, c, d, r| a.cmovl(c, d, r)) });
crate::vp_harness!(cmovq, |s| { cmov(s, 64, |a, c, d, r| a.cmovq(c, d, r)) });
crate::vp_harness!(setcc_r, |s| { setcc(s, |a, c, d| a.setcc_r(c, d)) });

// ---- integer register-immediate ----
crate::vp_harness!(addl_ri, |s| { ri(s, Mn::Add, 32, |a, d, i| a.addl_ri(d, i)) });
crate::vp_harness!(addq_ri, |s| { ri(s, Mn::Add, 64, |a, d, i| a.addq_ri(d, i)) });
crate::vp_harness!(andq_ri, |s| { ri(s, Mn::And, 64, |a, d, i| a.andq_ri(d, i)) });
crate::vp_harness!(cmpl_ri, |s| { ri(s, Mn::Cmp, 32, |a, d, i| a.cmpl_ri(d, i)) });
crate::vp_harness!(cmpq_ri, |s| { ri(s, Mn::Cmp, 64, |a, d, i| a.cmpq_ri(d, i)) });
crate::vp_harness!(movl_ri, |s| { ri(s, Mn::Mov, 32, |a, d, i| a.movl_ri(d, i)) });
crate::vp_harness!(movq_ri, |s| { ri(s, Mn::Mov, 64, |a, d, i| a.movq_ri(d, i)) });
crate::vp_harness!(subq_ri, |s| { ri(s, Mn::Sub, 64, |a, d, i| a.subq_ri(d, i)) });
// testl_ri is split by operand class so that the two parts can be told apart in known_findings.json:
//   testl_ri        immediates that do NOT fit an unsigned byte: 32-bit TEST with the requested register / imm32
//   testl_ri__imm8  immediates 0..=255: the assembler deliberately narrows to `test r/m8, imm8` (open finding: SF differs
//                   from the requested 32-bit TEST when bit 7 of the immediate is set)
crate::vp_harness!(testl_ri, |s| {
    let (d, dn) = gpr(s);
    let (i, v) = imm(s);
    s.assume(!(v >= 0 && v <= 255)); // the other half of the domain is row testl_ri__imm8
    let mut a = AssemblerX64::new(false);
    a.testl_ri(d, i);
    finish(a, Insn::op2(Mn::Test, 32, dec::gpr(dn, 32), imm_for(v, 32)));
});
crate::vp_harness!(testl_ri__imm8, |s| {
    let (d, dn) = gpr(s);
    let (i, v) = imm(s);
    s.assume(v >= 0 && v <= 255);
    let mut a = AssemblerX64::new(false);
    a.testl_ri(d, i);
    finish(a, Insn::op2(Mn::Test, 32, dec::gpr(dn, 32), imm_for(v, 32)));
});
crate::vp_harness!(xorl_ri, |s| { ri(s, Mn::Xor, 32, |a, d, i| a.xorl_ri(d, i)) });
crate::vp_harness!(sarl_ri, |s| { shift_i(s, Mn::Sar, 32, |a, d, i| a.sarl_ri(d, i)) });
crate::vp_harness!(sarq_ri, |s| { shift_i(s, Mn::Sar, 64, |a, d, i| a.sarq_ri(d, i)) });
crate::vp_harness!(shll_ri, |s| { shift_i(s, Mn::Shl, 32, |a, d, i| a.shll_ri(d, i)) });
crate::vp_harness!(shlq_ri, |s| { shift_i(s, Mn::Shl, 64, |a, d, i| a.shlq_ri(d, i)) });
crate::vp_harness!(shrl_ri, |s| { shift_i(s, Mn::Shr, 32, |a, d, i| a.shrl_ri(d, i)) });
crate::vp_harness!(shrq_ri, |s| { shift_i(s, Mn::Shr, 64, |a, d, i| a.shrq_ri(d, i)) });

// ---- integer one register ----
crate::vp_harness!(roll_r, |s| { shift_cl(s, Mn::Rol, 32, |a, d| a.roll_r(d)) });
crate::vp_harness!(rolq_r, |s| { shift_cl(s, Mn::Rol, 64, |a, d| a.rolq_r(d)) });
crate::vp_harness!(rorl_r, |s| { shift_cl(s, Mn::Ror, 32, |a, d| a.rorl_r(d)) });
crate::vp_harness!(rorq_r, |s| { shift_cl(s, Mn::Ror, 64, |a, d| a.rorq_r(d)) });
crate::vp_harness!(sarl_r, |s| { shift_cl(s, Mn::Sar, 32, |a, d| a.sarl_r(d)) });
crate::vp_harness!(sarq_r, |s| { shift_cl(s, Mn::Sar, 64, |a, d| a.sarq_r(d)) });
crate::vp_harness!(shll_r, |s| { shift_cl(s, Mn::Shl, 32, |a, d| a.shll_r(d)) });
crate::vp_harness!(shlq_r, |s| { shift_cl(s, Mn::Shl, 64, |a, d| a.shlq_r(d)) });
crate::vp_harness!(shrl_r, |s| { shift_cl(s, Mn::Shr, 32, |a, d| a.shrl_r(d)) });
crate::vp_harness!(shrq_r, |s| { shift_cl(s, Mn::Shr, 64, |a, d| a.shrq_r(d)) });
crate::vp_harness!(idivl_r, |s| { r1(s, Mn::Idiv, 32, |a, d| a.idivl_r(d)) });
crate::vp_harness!(idivq_r, |s| { r1(s, Mn::Idiv, 64, |a, d| a.idivq_r(d)) });
crate::vp_harness!(negl, |s| { r1(s, Mn::Neg, 32, |a, d| a.negl(d)) });
crate::vp_harness!(negq, |s| { r1(s, Mn::Neg, 64, |a, d| a.negq(d)) });
crate::vp_harness!(notl, |s| { r1(s, Mn::Not, 32, |a, d| a.notl(d)) });
crate::vp_harness!(notq, |s| { r1(s, Mn::Not, 64, |a, d| a.notq(d)) });
crate::vp_harness!(call_r, |s| { r1(s, Mn::Call, 64, |a, d| a.call_r(d)) });
crate::vp_harness!(jmp_r, |s| { r1(s, Mn::Jmp, 64, |a, d| a.jmp_r(d)) });
crate::vp_harness!(pushq_r, |s| { r1(s, Mn::Push, 64, |a, d| a.pushq_r(d)) });
crate::vp_harness!(popq_r, |s| { r1(s, Mn::Pop, 64, |a, d| a.popq_r(d)) });

// ---- no register operand ----
crate::vp_harness!(cdq, |s| { r0(s, Mn::Cwd, 32, |a| a.cdq()) });
crate::vp_harness!(cqo, |s| { r0(s, Mn::Cwd, 64, |a| a.cqo()) });
crate::vp_harness!(int3, |s| { r0(s, Mn::Int3, 0, |a| a.int3()) });
crate::vp_harness!(mfence, |s| { r0(s, Mn::Mfence, 0, |a| a.mfence()) });
crate::vp_harness!(nop, |s| { r0(s, Mn::Nop, 0, |a| a.nop()) });
crate::vp_harness!(retq, |s| { r0(s, Mn::Ret, 0, |a| a.retq()) });
crate::vp_harness!(call_rel32, |s| { let d = s.i32(); let mut a = AssemblerX64::new(false); a.call_rel32(d); finish(a, Insn::op1(Mn::Call, 0, Operand::Rel(d))) });

// ---- address destination, register source ----
crate::vp_harness!(cmpb_ar, unwind = 8, |s| { ar(s, Mn::Cmp, 8, false, |a, m, r| a.cmpb_ar(m, r)) });
crate::vp_harness!(cmpl_ar, unwind = 8, |s| { ar(s, Mn::Cmp, 32, false, |a, m, r| a.cmpl_ar(m, r)) });
crate::vp_harness!(cmpq_ar, unwind = 8, |s| { ar(s, Mn::Cmp, 64, false, |a, m, r| a.cmpq_ar(m, r)) });
crate::vp_harness!(cmpxchgl_ar, unwind = 8, |s| { ar(s, Mn::Cmpxchg, 32, false, |a, m, r| a.cmpxchgl_ar(m, r)) });
crate::vp_harness!(cmpxchgq_ar, unwind = 8, |s| { ar(s, Mn::Cmpxchg, 64, false, |a, m, r| a.cmpxchgq_ar(m, r)) });
crate::vp_harness!(lock_cmpxchgl_ar, unwind = 8, |s| { ar(s, Mn::Cmpxchg, 32, true, |a, m, r| a.lock_cmpxchgl_ar(m, r)) });
crate::vp_harness!(lock_cmpxchgq_ar, unwind = 8, |s| { ar(s, Mn::Cmpxchg, 64, true, |a, m, r| a.lock_cmpxchgq_ar(m, r)) });
crate::vp_harness!(lock_xaddl_ar, unwind = 8, |s| { ar(s, Mn::Xadd, 32, true, |a, m, r| a.lock_xaddl_ar(m, r)) });
crate::vp_harness!(lock_xaddq_ar, unwind = 8, |s| { ar(s, Mn::Xadd, 64, true, |a, m, r| a.lock_xaddq_ar(m, r)) });
crate::vp_harness!(movb_ar, unwind = 8, |s| { ar(s, Mn::Mov, 8, false, |a, m, r| a.movb_ar(m, r)) });
crate::vp_harness!(movl_ar, unwind = 8, |s| { ar(s, Mn::Mov, 32, false, |a, m, r| a.movl_ar(m, r)) });
crate::vp_harness!(movq_ar, unwind = 8, |s| { ar(s, Mn::Mov, 64, false, |a, m, r| a.movq_ar(m, r)) });
crate::vp_harness!(testl_ar, unwind = 8, |s| { ar(s, Mn::Test, 32, false, |a, m, r| a.testl_ar(m, r)) });
crate::vp_harness!(testq_ar, unwind = 8, |s| { ar(s, Mn::Test, 64, false, |a, m, r| a.testq_ar(m, r)) });
crate::vp_harness!(xaddl_ar, unwind = 8, |s| { ar(s, Mn::Xadd, 32, false, |a, m, r| a.xaddl_ar(m, r)) });
crate::vp_harness!(xaddq_ar, unwind = 8, |s| { ar(s, Mn::Xadd, 64, false, |a, m, r| a.xaddq_ar(m, r)) });
crate::vp_harness!(xchgb_ar, unwind = 8, |s| { ar(s, Mn::Xchg, 8, false, |a, m, r| a.xchgb_ar(m, r)) });
crate::vp_harness!(xchgl_ar, unwind = 8, |s| { ar(s, Mn::Xchg, 32, false, |a, m, r| a.xchgl_ar(m, r)) });
crate::vp_harness!(xchgq_ar, unwind = 8, |s| { ar(s, Mn::Xchg, 64, false, |a, m, r| a.xchgq_ar(m, r)) });

// ---- register destination, address source ----
crate::vp_harness!(lea, unwind = 8, |s| { ra(s, Mn::Lea, 64, 0, |a, d, m| a.lea(d, m)) });
crate::vp_harness!(movb_ra, unwind = 8, |s| { ra(s, Mn::Mov, 8, 8, |a, d, m| a.movb_ra(d, m)) });
crate::vp_harness!(movl_ra, unwind = 8, |s| { ra(s, Mn::Mov, 32, 32, |a, d, m| a.movl_ra(d, m)) });
crate::vp_harness!(movq_ra, unwind = 8, |s| { ra(s, Mn::Mov, 64, 64, |a, d, m| a.movq_ra(d, m)) });
crate::vp_harness!(movsxbl_ra, unwind = 8, |s| { ra(s, Mn::Movsx, 32, 8, |a, d, m| a.movsxbl_ra(d, m)) });
crate::vp_harness!(movsxbq_ra, unwind = 8, |s| { ra(s, Mn::Movsx, 64, 8, |a, d, m| a.movsxbq_ra(d, m)) });
crate::vp_harness!(movzxb_ra, unwind = 8, |s| { ra(s, Mn::Movzx, 32, 8, |a, d, m| a.movzxb_ra(d, m)) });

// ---- address destination, immediate source ----
crate::vp_harness!(cmpb_ai, unwind = 8, |s| { ai(s, Mn::Cmp, 8, |a, m, i| a.cmpb_ai(m, i)) });
crate::vp_harness!(cmpl_ai, unwind = 8, |s| { ai(s, Mn::Cmp, 32, |a, m, i| a.cmpl_ai(m, i)) });
crate::vp_harness!(cmpq_ai, unwind = 8, |s| { ai(s, Mn::Cmp, 64, |a, m, i| a.cmpq_ai(m, i)) });
crate::vp_harness!(movb_ai, unwind = 8, |s| { ai(s, Mn::Mov, 8, |a, m, i| a.movb_ai(m, i)) });
crate::vp_harness!(movl_ai, unwind = 8, |s| { ai(s, Mn::Mov, 32, |a, m, i| a.movl_ai(m, i)) });
crate::vp_harness!(movq_ai, unwind = 8, |s| { ai(s, Mn::Mov, 64, |a, m, i| a.movq_ai(m, i)) });
crate::vp_harness!(testb_ai, unwind = 8, |s| { ai(s, Mn::Test, 8, |a, m, i| a.testb_ai(m, i)) });
crate::vp_harness!(testl_ai, unwind = 8, |s| { ai(s, Mn::Test, 32, |a, m, i| a.testl_ai(m, i)) });
crate::vp_harness!(testq_ai, unwind = 8, |s| { ai(s, Mn::Test, 64, |a, m, i| a.testq_ai(m, i)) });

// ---- SSE register-register ----
crate::vp_harness!(addss_rr, |s| { xx(s, Mn::Addss, |a, d, r| a.addss_rr(d, r)) });
crate::vp_harness!(addsd_rr, |s| { xx(s, Mn::Addsd, |a, d, r| a.addsd_rr(d, r)) });
crate::vp_harness!(cvtsd2ss_rr, |s| { xx(s, Mn::Cvtsd2ss, |a, d, r| a.cvtsd2ss_rr(d, r)) });
crate::vp_harness!(cvtss2sd_rr, |s| { xx(s, Mn::Cvtss2sd, |a, d, r| a.cvtss2sd_rr(d, r)) });
crate::vp_harness!(divss_rr, |s| { xx(s, Mn::Divss, |a, d, r| a.divss_rr(d, r)) });
crate::vp_harness!(divsd_rr, |s| { xx(s, Mn::Divsd, |a, d, r| a.divsd_rr(d, r)) });
crate::vp_harness!(movsd_rr, |s| { xx(s, Mn::Movsd, |a, d, r| a.movsd_rr(d, r)) });
crate::vp_harness!(movss_rr, |s| { xx(s, Mn::Movss, |a, d, r| a.movss_rr(d, r)) });
crate::vp_harness!(mulsd_rr, |s| { xx(s, Mn::Mulsd, |a, d, r| a.mulsd_rr(d, r)) });
crate::vp_harness!(mulss_rr, |s| { xx(s, Mn::Mulss, |a, d, r| a.mulss_rr(d, r)) });
crate::vp_harness!(pxor_rr, |s| { xx(s, Mn::Pxor, |a, d, r| a.pxor_rr(d, r)) });
crate::vp_harness!(sqrtsd_rr, |s| { xx(s, Mn::Sqrtsd, |a, d, r| a.sqrtsd_rr(d, r)) });
crate::vp_harness!(sqrtss_rr, |s| { xx(s, Mn::Sqrtss, |a, d, r| a.sqrtss_rr(d, r)) });
crate::vp_harness!(subsd_rr, |s| { xx(s, Mn::Subsd, |a, d, r| a.subsd_rr(d, r)) });
crate::vp_harness!(subss_rr, |s| { xx(s, Mn::Subss, |a, d, r| a.subss_rr(d, r)) });
crate::vp_harness!(ucomisd_rr, |s| { xx(s, Mn::Ucomisd, |a, d, r| a.ucomisd_rr(d, r)) });
crate::vp_harness!(ucomiss_rr, |s| { xx(s, Mn::Ucomiss, |a, d, r| a.ucomiss_rr(d, r)) });
crate::vp_harness!(xorps_rr, |s| { xx(s, Mn::Xorps, |a, d, r| a.xorps_rr(d, r)) });
crate::vp_harness!(cvtsi2sdd_rr, |s| { xg(s, Mn::Cvtsi2sd, 32, |a, d, r| a.cvtsi2sdd_rr(d, r)) });
crate::vp_harness!(cvtsi2sdq_rr, |s| { xg(s, Mn::Cvtsi2sd, 64, |a, d, r| a.cvtsi2sdq_rr(d, r)) });
crate::vp_harness!(cvtsi2ssd_rr, |s| { xg(s, Mn::Cvtsi2ss, 32, |a, d, r| a.cvtsi2ssd_rr(d, r)) });
crate::vp_harness!(cvtsi2ssq_rr, |s| { xg(s, Mn::Cvtsi2ss, 64, |a, d, r| a.cvtsi2ssq_rr(d, r)) });
crate::vp_harness!(movd_xr, |s| { xg(s, Mn::Movd, 32, |a, d, r| a.movd_xr(d, r)) });
crate::vp_harness!(movq_xr, |s| { xg(s, Mn::Movq, 64, |a, d, r| a.movq_xr(d, r)) });
crate::vp_harness!(cvttsd2sid_rr, |s| { gx(s, Mn::Cvttsd2si, 32, |a, d, r| a.cvttsd2sid_rr(d, r)) });
crate::vp_harness!(cvttsd2siq_rr, |s| { gx(s, Mn::Cvttsd2si, 64, |a, d, r| a.cvttsd2siq_rr(d, r)) });
crate::vp_harness!(cvttss2sid_rr, |s| { gx(s, Mn::Cvttss2si, 32, |a, d, r| a.cvttss2sid_rr(d, r)) });
crate::vp_harness!(cvttss2siq_rr, |s| { gx(s, Mn::Cvttss2si, 64, |a, d, r| a.cvttss2siq_rr(d, r)) });
crate::vp_harness!(movd_rx, |s| { gx(s, Mn::Movd, 32, |a, d, r| a.movd_rx(d, r)) });
crate::vp_harness!(movq_rx, |s| { gx(s, Mn::Movq, 64, |a, d, r| a.movq_rx(d, r)) });
crate::vp_harness!(roundsd_ri, |s| { xxi(s, Mn::Roundsd, |a, d, r, m| a.roundsd_ri(d, r, m)) });
crate::vp_harness!(roundss_ri, |s| { xxi(s, Mn::Roundss, |a, d, r, m| a.roundss_ri(d, r, m)) });

// ---- SSE with address ----
crate::vp_harness!(andps_ra, unwind = 8, |s| { xa(s, false, Mn::Andps, 128, |a, d, m| a.andps_ra(d, m)) });
crate::vp_harness!(movsd_ra, unwind = 8, |s| { xa(s, false, Mn::Movsd, 64, |a, d, m| a.movsd_ra(d, m)) });
crate::vp_harness!(movss_ra, unwind = 8, |s| { xa(s, false, Mn::Movss, 32, |a, d, m| a.movss_ra(d, m)) });
crate::vp_harness!(xorpd_ra, unwind = 8, |s| { xa(s, false, Mn::Xorpd, 128, |a, d, m| a.xorpd_ra(d, m)) });
crate::vp_harness!(xorps_ra, unwind = 8, |s| { xa(s, false, Mn::Xorps, 128, |a, d, m| a.xorps_ra(d, m)) });
crate::vp_harness!(movaps_ar, unwind = 8, |s| { ax(s, false, Mn::Movaps, 128, |a, m, r| a.movaps_ar(m, r)) });
crate::vp_harness!(movsd_ar, unwind = 8, |s| { ax(s, false, Mn::Movsd, 64, |a, m, r| a.movsd_ar(m, r)) });
crate::vp_harness!(movss_ar, unwind = 8, |s| { ax(s, false, Mn::Movss, 32, |a, m, r| a.movss_ar(m, r)) });
crate::vp_harness!(movups_ar, unwind = 8, |s| { ax(s, false, Mn::Movups, 128, |a, m, r| a.movups_ar(m, r)) });

// ---- VEX three-operand ----
crate::vp_harness!(vaddsd_rr, |s| { vxxx(s, Mn::Addsd, |a, d, l, r| a.vaddsd_rr(d, l, r)) });
crate::vp_harness!(vaddss_rr, |s| { vxxx(s, Mn::Addss, |a, d, l, r| a.vaddss_rr(d, l, r)) });
crate::vp_harness!(vcvtsd2ss_rr, |s| { vxxx(s, Mn::Cvtsd2ss, |a, d, l, r| a.vcvtsd2ss_rr(d, l, r)) });
crate::vp_harness!(vcvtss2sd_rr, |s| { vxxx(s, Mn::Cvtss2sd, |a, d, l, r| a.vcvtss2sd_rr(d, l, r)) });
crate::vp_harness!(vdivsd_rr, |s| { vxxx(s, Mn::Divsd, |a, d, l, r| a.vdivsd_rr(d, l, r)) });
crate::vp_harness!(vdivss_rr, |s| { vxxx(s, Mn::Divss, |a, d, l, r| a.vdivss_rr(d, l, r)) });
crate::vp_harness!(vmovsd_rr, |s| { vxxx(s, Mn::Movsd, |a, d, l, r| a.vmovsd_rr(d, l, r)) });
crate::vp_harness!(vmovss_rr, |s| { vxxx(s, Mn::Movss, |a, d, l, r| a.vmovss_rr(d, l, r)) });
crate::vp_harness!(vmulsd_rr, |s| { vxxx(s, Mn::Mulsd, |a, d, l, r| a.vmulsd_rr(d, l, r)) });
crate::vp_harness!(vmulss_rr, |s| { vxxx(s, Mn::Mulss, |a, d, l, r| a.vmulss_rr(d, l, r)) });
crate::vp_harness!(vsqrtsd_rr, |s| { vxxx(s, Mn::Sqrtsd, |a, d, l, r| a.vsqrtsd_rr(d, l, r)) });
crate::vp_harness!(vsqrtss_rr, |s| { vxxx(s, Mn::Sqrtss, |a, d, l, r| a.vsqrtss_rr(d, l, r)) });
crate::vp_harness!(vsubsd_rr, |s| { vxxx(s, Mn::Subsd, |a, d, l, r| a.vsubsd_rr(d, l, r)) });
crate::vp_harness!(vsubss_rr, |s| { vxxx(s, Mn::Subss, |a, d, l, r| a.vsubss_rr(d, l, r)) });
crate::vp_harness!(vxorps_rr, |s| { vxxx(s, Mn::Xorps, |a, d, l, r| a.vxorps_rr(d, l, r)) });
crate::vp_harness!(vcvtsi2sdd_rr, |s| { vxxg(s, Mn::Cvtsi2sd, 32, |a, d, l, r| a.vcvtsi2sdd_rr(d, l, r)) });
crate::vp_harness!(vcvtsi2sdq_rr, |s| { vxxg(s, Mn::Cvtsi2sd, 64, |a, d, l, r| a.vcvtsi2sdq_rr(d, l, r)) });
crate::vp_harness!(vcvtsi2ssd_rr, |s| { vxxg(s, Mn::Cvtsi2ss, 32, |a, d, l, r| a.vcvtsi2ssd_rr(d, l, r)) });
crate::vp_harness!(vcvtsi2ssq_rr, |s| { vxxg(s, Mn::Cvtsi2ss, 64, |a, d, l, r| a.vcvtsi2ssq_rr(d, l, r)) });
crate::vp_harness!(vroundsd_ri, |s| { vxxxi(s, Mn::Roundsd, |a, d, l, r, m| a.vroundsd_ri(d, l, r, m)) });
crate::vp_harness!(vroundss_ri, |s| { vxxxi(s, Mn::Roundss, |a, d, l, r, m| a.vroundss_ri(d, l, r, m)) });
crate::vp_harness!(vandpd_ra, unwind = 8, |s| { vxxa(s, Mn::Andpd, 128, |a, d, l, m| a.vandpd_ra(d, l, m)) });
crate::vp_harness!(vandps_ra, unwind = 8, |s| { vxxa(s, Mn::Andps, 128, |a, d, l, m| a.vandps_ra(d, l, m)) });
crate::vp_harness!(vxorpd_ra, unwind = 8, |s| { vxxa(s, Mn::Xorpd, 128, |a, d, l, m| a.vxorpd_ra(d, l, m)) });
crate::vp_harness!(vxorps_ra, unwind = 8, |s| { vxxa(s, Mn::Xorps, 128, |a, d, l, m| a.vxorps_ra(d, l, m)) });

// ---- VEX two-operand ----
crate::vp_harness!(vcvttsd2sid_rr, |s| { vgx(s, Mn::Cvttsd2si, 32, |a, d, r| a.vcvttsd2sid_rr(d, r)) });
crate::vp_harness!(vcvttsd2siq_rr, |s| { vgx(s, Mn::Cvttsd2si, 64, |a, d, r| a.vcvttsd2siq_rr(d, r)) });
crate::vp_harness!(vcvttss2sid_rr, |s| { vgx(s, Mn::Cvttss2si, 32, |a, d, r| a.vcvttss2sid_rr(d, r)) });
crate::vp_harness!(vcvttss2siq_rr, |s| { vgx(s, Mn::Cvttss2si, 64, |a, d, r| a.vcvttss2siq_rr(d, r)) });
crate::vp_harness!(vmovd_rx, |s| { vgx(s, Mn::Movd, 32, |a, d, r| a.vmovd_rx(d, r)) });
crate::vp_harness!(vmovq_rx, |s| { vgx(s, Mn::Movq, 64, |a, d, r| a.vmovq_rx(d, r)) });
crate::vp_harness!(vmovd_xr, |s| { vxg(s, Mn::Movd, 32, |a, d, r| a.vmovd_xr(d, r)) });
crate::vp_harness!(vmovq_xr, |s| { vxg(s, Mn::Movq, 64, |a, d, r| a.vmovq_xr(d, r)) });
crate::vp_harness!(vmovapd_rr, |s| { vxx(s, Mn::Movapd, |a, d, r| a.vmovapd_rr(d, r)) });
crate::vp_harness!(vmovaps_rr, |s| { vxx(s, Mn::Movaps, |a, d, r| a.vmovaps_rr(d, r)) });
crate::vp_harness!(vucomisd_rr, |s| { vxx(s, Mn::Ucomisd, |a, d, r| a.vucomisd_rr(d, r)) });
crate::vp_harness!(vucomiss_rr, |s| { vxx(s, Mn::Ucomiss, |a, d, r| a.vucomiss_rr(d, r)) });
crate::vp_harness!(vmovsd_ra, unwind = 8, |s| { xa(s, true, Mn::Movsd, 64, |a, d, m| a.vmovsd_ra(d, m)) });
crate::vp_harness!(vmovss_ra, unwind = 8, |s| { xa(s, true, Mn::Movss, 32, |a, d, m| a.vmovss_ra(d, m)) });
crate::vp_harness!(vmovsd_ar, unwind = 8, |s| { ax(s, true, Mn::Movsd, 64, |a, m, r| a.vmovsd_ar(m, r)) });
crate::vp_harness!(vmovss_ar, unwind = 8, |s| { ax(s, true, Mn::Movss, 32, |a, m, r| a.vmovss_ar(m, r)) });

// ---- label forms: forward (label bound q filler bytes after the instruction) and backward (bound p bytes before) ----
crate::vp_harness!(jmp__fwd, unwind = 6, |s| { label_fwd(s, false, |a, l, _s| { a.jmp(l); Insn::op1(Mn::Jmp, 0, Operand::Rel(0)) }) });
crate::vp_harness!(jmp_near__fwd, unwind = 6, |s| { label_fwd(s, false, |a, l, _s| { a.jmp_near(l); Insn::op1(Mn::Jmp, 0, Operand::Rel(0)) }) });
crate::vp_harness!(jcc__fwd, unwind = 6, |s| { label_fwd(s, false, |a, l, s| { let (c, cc) = cond(s); a.jcc(c, l); Insn::op1(Mn::Jcc, 0, Operand::Rel(0)).with_cc(cc) }) });
crate::vp_harness!(jcc_near__fwd, unwind = 6, |s| { label_fwd(s, false, |a, l, s| { let (c, cc) = cond(s); a.jcc_near(c, l); Insn::op1(Mn::Jcc, 0, Operand::Rel(0)).with_cc(cc) }) });
crate::vp_harness!(movq_rl__fwd, unwind = 6, |s| { label_fwd(s, false, |a, l, s| { let (r, n) = gpr(s); a.movq_rl(r, l); Insn::op2(Mn::Mov, 64, dec::gpr(n, 64), mem_rip(0, 64)) }) });
crate::vp_harness!(andps_rl__fwd, unwind = 6, |s| { label_fwd(s, false, |a, l, s| { let (x, n) = xmm(s); a.andps_rl(x, l); Insn::op2(Mn::Andps, 128, Operand::Xmm(n), mem_rip(0, 128)) }) });
crate::vp_harness!(movsd_rl__fwd, unwind = 6, |s| { label_fwd(s, false, |a, l, s| { let (x, n) = xmm(s); a.movsd_rl(x, l); Insn::op2(Mn::Movsd, 128, Operand::Xmm(n), mem_rip(0, 64)) }) });
crate::vp_harness!(movss_rl__fwd, unwind = 6, |s| { label_fwd(s, false, |a, l, s| { let (x, n) = xmm(s); a.movss_rl(x, l); Insn::op2(Mn::Movss, 128, Operand::Xmm(n), mem_rip(0, 32)) }) });
crate::vp_harness!(xorpd_rl__fwd, unwind = 6, |s| { label_fwd(s, false, |a, l, s| { let (x, n) = xmm(s); a.xorpd_rl(x, l); Insn::op2(Mn::Xorpd, 128, Operand::Xmm(n), mem_rip(0, 128)) }) });
crate::vp_harness!(xorps_rl__fwd, unwind = 6, |s| { label_fwd(s, false, |a, l, s| { let (x, n) = xmm(s); a.xorps_rl(x, l); Insn::op2(Mn::Xorps, 128, Operand::Xmm(n), mem_rip(0, 128)) }) });
crate::vp_harness!(vmovsd_rl__fwd, unwind = 6, |s| { label_fwd(s, true, |a, l, s| { let (x, n) = xmm(s); a.vmovsd_rl(x, l); Insn::op2(Mn::Movsd, 128, Operand::Xmm(n), mem_rip(0, 64)).with_vex() }) });
crate::vp_harness!(vmovss_rl__fwd, unwind = 6, |s| { label_fwd(s, true, |a, l, s| { let (x, n) = xmm(s); a.vmovss_rl(x, l); Insn::op2(Mn::Movss, 128, Operand::Xmm(n), mem_rip(0, 32)).with_vex() }) });
crate::vp_harness!(vandpd_rl__fwd, unwind = 6, |s| { label_fwd(s, true, |a, l, s| { let (x, n) = xmm(s); let (y, k) = xmm(s); a.vandpd_rl(x, y, l); Insn::op3(Mn::Andpd, 128, Operand::Xmm(n), Operand::Xmm(k), mem_rip(0, 128)).with_vex() }) });
crate::vp_harness!(vandps_rl__fwd, unwind = 6, |s| { label_fwd(s, true, |a, l, s| { let (x, n) = xmm(s); let (y, k) = xmm(s); a.vandps_rl(x, y, l); Insn::op3(Mn::Andps, 128, Operand::Xmm(n), Operand::Xmm(k), mem_rip(0, 128)).with_vex() }) });
crate::vp_harness!(vxorpd_rl__fwd, unwind = 6, |s| { label_fwd(s, true, |a, l, s| { let (x, n) = xmm(s); let (y, k) = xmm(s); a.vxorpd_rl(x, y, l); Insn::op3(Mn::Xorpd, 128, Operand::Xmm(n), Operand::Xmm(k), mem_rip(0, 128)).with_vex() }) });
crate::vp_harness!(vxorps_rl__fwd, unwind = 6, |s| { label_fwd(s, true, |a, l, s| { let (x, n) = xmm(s); let (y, k) = xmm(s); a.vxorps_rl(x, y, l); Insn::op3(Mn::Xorps, 128, Operand::Xmm(n), Operand::Xmm(k), mem_rip(0, 128)).with_vex() }) });
crate::vp_harness!(jmp__bwd, unwind = 6, |s| { label_bwd(s, false, |a, l, _s| { a.jmp(l); Insn::op1(Mn::Jmp, 0, Operand::Rel(0)) }) });
crate::vp_harness!(jmp_near__bwd, unwind = 6, |s| { label_bwd(s, false, |a, l, _s| { a.jmp_near(l); Insn::op1(Mn::Jmp, 0, Operand::Rel(0)) }) });
crate::vp_harness!(jcc__bwd, unwind = 6, |s| { label_bwd(s, false, |a, l, s| { let (c, cc) = cond(s); a.jcc(c, l); Insn::op1(Mn::Jcc, 0, Operand::Rel(0)).with_cc(cc) }) });
crate::vp_harness!(jcc_near__bwd, unwind = 6, |s| { label_bwd(s, false, |a, l, s| { let (c, cc) = cond(s); a.jcc_near(c, l); Insn::op1(Mn::Jcc, 0, Operand::Rel(0)).with_cc(cc) }) });
crate::vp_harness!(movq_rl__bwd, unwind = 6, |s| { label_bwd(s, false, |a, l, s| { let (r, n) = gpr(s); a.movq_rl(r, l); Insn::op2(Mn::Mov, 64, dec::gpr(n, 64), mem_rip(0, 64)) }) });
crate::vp_harness!(andps_rl__bwd, unwind = 6, |s| { label_bwd(s, false, |a, l, s| { let (x, n) = xmm(s); a.andps_rl(x, l); Insn::op2(Mn::Andps, 128, Operand::Xmm(n), mem_rip(0, 128)) }) });
crate::vp_harness!(movsd_rl__bwd, unwind = 6, |s| { label_bwd(s, false, |a, l, s| { let (x, n) = xmm(s); a.movsd_rl(x, l); Insn::op2(Mn::Movsd, 128, Operand::Xmm(n), mem_rip(0, 64)) }) });
crate::vp_harness!(movss_rl__bwd, unwind = 6, |s| { label_bwd(s, false, |a, l, s| { let (x, n) = xmm(s); a.movss_rl(x, l); Insn::op2(Mn::Movss, 128, Operand::Xmm(n), mem_rip(0, 32)) }) });
crate::vp_harness!(xorpd_rl__bwd, unwind = 6, |s| { label_bwd(s, false, |a, l, s| { let (x, n) = xmm(s); a.xorpd_rl(x, l); Insn::op2(Mn::Xorpd, 128, Operand::Xmm(n), mem_rip(0, 128)) }) });
crate::vp_harness!(xorps_rl__bwd, unwind = 6, |s| { label_bwd(s, false, |a, l, s| { let (x, n) = xmm(s); a.xorps_rl(x, l); Insn::op2(Mn::Xorps, 128, Operand::Xmm(n), mem_rip(0, 128)) }) });
crate::vp_harness!(vmovsd_rl__bwd, unwind = 6, |s| { label_bwd(s, true, |a, l, s| { let (x, n) = xmm(s); a.vmovsd_rl(x, l); Insn::op2(Mn::Movsd, 128, Operand::Xmm(n), mem_rip(0, 64)).with_vex() }) });
crate::vp_harness!(vmovss_rl__bwd, unwind = 6, |s| { label_bwd(s, true, |a, l, s| { let (x, n) = xmm(s); a.vmovss_rl(x, l); Insn::op2(Mn::Movss, 128, Operand::Xmm(n), mem_rip(0, 32)).with_vex() }) });
crate::vp_harness!(vandpd_rl__bwd, unwind = 6, |s| { label_bwd(s, true, |a, l, s| { let (x, n) = xmm(s); let (y, k) = xmm(s); a.vandpd_rl(x, y, l); Insn::op3(Mn::Andpd, 128, Operand::Xmm(n), Operand::Xmm(k), mem_rip(0, 128)).with_vex() }) });
crate::vp_harness!(vandps_rl__bwd, unwind = 6, |s| { label_bwd(s, true, |a, l, s| { let (x, n) = xmm(s); let (y, k) = xmm(s); a.vandps_rl(x, y, l); Insn::op3(Mn::Andps, 128, Operand::Xmm(n), Operand::Xmm(k), mem_rip(0, 128)).with_vex() }) });
crate::vp_harness!(vxorpd_rl__bwd, unwind = 6, |s| { label_bwd(s, true, |a, l, s| { let (x, n) = xmm(s); let (y, k) = xmm(s); a.vxorpd_rl(x, y, l); Insn::op3(Mn::Xorpd, 128, Operand::Xmm(n), Operand::Xmm(k), mem_rip(0, 128)).with_vex() }) });
crate::vp_harness!(vxorps_rl__bwd, unwind = 6, |s| { label_bwd(s, true, |a, l, s| { let (x, n) = xmm(s); let (y, k) = xmm(s); a.vxorps_rl(x, y, l); Insn::op3(Mn::Xorps, 128, Operand::Xmm(n), Operand::Xmm(k), mem_rip(0, 128)).with_vex() }) });

// ---- executed-only distance sweeps (see label_sweep_fwd) ----
crate::vp_harness!(jmp__fwd_sweep, |s| { label_sweep_fwd(s, |a, l, _s| { a.jmp(l); Insn::op1(Mn::Jmp, 0, Operand::Rel(0)) }) });
crate::vp_harness!(jcc__fwd_sweep, |s| { label_sweep_fwd(s, |a, l, s| { let (c, cc) = cond(s); a.jcc(c, l); Insn::op1(Mn::Jcc, 0, Operand::Rel(0)).with_cc(cc) }) });
crate::vp_harness!(jmp_near__fwd_sweep, |s| { label_sweep_fwd(s, |a, l, _s| { a.jmp_near(l); Insn::op1(Mn::Jmp, 0, Operand::Rel(0)) }) });
crate::vp_harness!(jcc_near__fwd_sweep, |s| { label_sweep_fwd(s, |a, l, s| { let (c, cc) = cond(s); a.jcc_near(c, l); Insn::op1(Mn::Jcc, 0, Operand::Rel(0)).with_cc(cc) }) });
crate::vp_harness!(jmp__bwd_sweep, |s| { label_sweep_bwd(s, |a, l, _s| { a.jmp(l); Insn::op1(Mn::Jmp, 0, Operand::Rel(0)) }) });
crate::vp_harness!(jcc__bwd_sweep, |s| { label_sweep_bwd(s, |a, l, s| { let (c, cc) = cond(s); a.jcc(c, l); Insn::op1(Mn::Jcc, 0, Operand::Rel(0)).with_cc(cc) }) });
crate::vp_harness!(jmp_near__bwd_sweep, |s| { label_sweep_bwd(s, |a, l, _s| { a.jmp_near(l); Insn::op1(Mn::Jmp, 0, Operand::Rel(0)) }) });
crate::vp_harness!(jcc_near__bwd_sweep, |s| { label_sweep_bwd(s, |a, l, s| { let (c, cc) = cond(s); a.jcc_near(c, l); Insn::op1(Mn::Jcc, 0, Operand::Rel(0)).with_cc(cc) }) });
