//! Private-API contract rows for dora-asm/src/arm64.rs: the class encoders of the branch instructions, the private
//! immediate forms (b_imm, bc_imm, tbz_imm, tbnz_imm) and the range predicates. This file is compiled as a CHILD MODULE
//! of `arm64` in a scratch copy of the crate (so `super::*` reaches private items); see tools/kx.py unit `a64p`.
//! These rows are what contracts/c08_labels.vspec ASSUMES about the class encoders (enc_b, enc_bc, enc_cb, enc_tb, enc_adr):
//! "the returned word decodes to exactly the requested offset / register / condition; an offset outside the architectural
//! field makes the call panic".
use super::*;
use crate::a64dec::*;
use crate::vp::Src;

fn reg(s: &mut Src) -> (Register, R) {
    let k = s.below(33);
    if k < 31 { (Register::new(k), R::X(k)) } else if k == 31 { (REG_ZERO, R::Zr) } else { (REG_SP, R::Sp) }
}
fn cond(s: &mut Src) -> (Cond, u8) {
    match s.below(16) {
        0 => (Cond::EQ, 0), 1 => (Cond::NE, 1), 2 => (Cond::CS, 2), 3 => (Cond::HS, 2), 4 => (Cond::CC, 3), 5 => (Cond::LO, 3),
        6 => (Cond::MI, 4), 7 => (Cond::PL, 5), 8 => (Cond::VS, 6), 9 => (Cond::VC, 7), 10 => (Cond::HI, 8), 11 => (Cond::LS, 9),
        12 => (Cond::GE, 10), 13 => (Cond::LT, 11), 14 => (Cond::GT, 12), _ => (Cond::LE, 13),
    }
}
fn one_word(a: AssemblerArm64) -> u32 {
    let code = a.finalize(1).code();
    crate::vp_check!(code.len() == 4, "one word emitted");
    u32::from_le_bytes([code[0], code[1], code[2], code[3]])
}

crate::vp_harness!(b_imm, |s| {
    let imm = s.i32();
    let mut a = AssemblerArm64::new();
    a.b_imm(imm);
    let got = decode(one_word(a));
    let mut want = Insn::new(Op::B);
    want.imm = (imm as i64) * 4;
    crate::vp_note!("imm26 {} got {:?}", imm, got);
    crate::vp_check!(got == want, "b_imm: B to exactly imm26*4");
});

crate::vp_harness!(bc_imm, |s| {
    let (c, cn) = cond(s); let imm = s.i32();
    let mut a = AssemblerArm64::new();
    a.bc_imm(c, imm);
    let got = decode(one_word(a));
    let mut want = Insn::new(Op::BCond);
    want.cond = cn; want.imm = (imm as i64) * 4;
    crate::vp_note!("imm19 {} got {:?}", imm, got);
    crate::vp_check!(got == want, "bc_imm: B.cond to exactly imm19*4");
});

crate::vp_harness!(tbz_imm, |s| {
    let (rt, qt) = reg(s); let bit = s.u32(); let imm = s.i32();
    let mut a = AssemblerArm64::new();
    a.tbz_imm(rt, bit, imm);
    let got = decode(one_word(a));
    let mut want = Insn::new(Op::Tbz);
    want.rd = qt; want.imm2 = bit as i64; want.imm = imm as i64; want.sf = if bit >= 32 { 64 } else { 32 };
    crate::vp_note!("bit {} imm {} got {:?}", bit, imm, got);
    crate::vp_check!(got == want, "tbz_imm: TBZ rt, #bit, exactly imm bytes");
});

crate::vp_harness!(tbnz_imm, |s| {
    let (rt, qt) = reg(s); let bit = s.u32(); let imm = s.i32();
    let mut a = AssemblerArm64::new();
    a.tbnz_imm(rt, bit, imm);
    let got = decode(one_word(a));
    let mut want = Insn::new(Op::Tbnz);
    want.rd = qt; want.imm2 = bit as i64; want.imm = imm as i64; want.sf = if bit >= 32 { 64 } else { 32 };
    crate::vp_note!("bit {} imm {} got {:?}", bit, imm, got);
    crate::vp_check!(got == want, "tbnz_imm: TBNZ rt, #bit, exactly imm bytes");
});

crate::vp_harness!(cls_test_and_branch, |s| {
    let (rt, qt) = reg(s); let op = s.u32(); let bit = s.u32(); let imm14 = s.i32();
    let w = cls::test_and_branch(op, bit, imm14, rt);
    let got = decode(w);
    let mut want = Insn::new(if op == 1 { Op::Tbnz } else { Op::Tbz });
    want.rd = qt; want.imm2 = bit as i64; want.imm = (imm14 as i64) * 4; want.sf = if bit >= 32 { 64 } else { 32 };
    crate::vp_note!("op {} bit {} imm14 {} word {:08x} got {:?}", op, bit, imm14, w, got);
    crate::vp_check!(got == want, "cls::test_and_branch: exactly imm14 instructions");
});

crate::vp_harness!(cls_cmp_branch_imm, |s| {
    let (rt, qt) = reg(s); let sf = s.u32(); let op = s.u32(); let imm19 = s.i32();
    let w = cls::cmp_branch_imm(sf, op, rt, imm19);
    let got = decode(w);
    let mut want = Insn::new(if op == 1 { Op::Cbnz } else { Op::Cbz });
    want.rd = qt; want.imm = (imm19 as i64) * 4; want.sf = if sf == 1 { 64 } else { 32 };
    crate::vp_note!("sf {} op {} imm19 {} word {:08x} got {:?}", sf, op, imm19, w, got);
    crate::vp_check!(got == want, "cls::cmp_branch_imm: exactly imm19 instructions");
});

crate::vp_harness!(cls_uncond_branch_imm, |s| {
    let op = s.u32(); let imm26 = s.i32();
    let w = cls::uncond_branch_imm(op, imm26);
    let got = decode(w);
    let mut want = Insn::new(if op == 1 { Op::Bl } else { Op::B });
    want.imm = (imm26 as i64) * 4;
    crate::vp_note!("op {} imm26 {} word {:08x} got {:?}", op, imm26, w, got);
    crate::vp_check!(got == want, "cls::uncond_branch_imm: exactly imm26 instructions");
});

crate::vp_harness!(inst_b_cond_imm, |s| {
    let (c, cn) = cond(s); let imm19 = s.i32();
    let w = inst::b_cond_imm(c, imm19);
    let got = decode(w);
    let mut want = Insn::new(Op::BCond);
    want.cond = cn; want.imm = (imm19 as i64) * 4;
    crate::vp_note!("imm19 {} word {:08x} got {:?}", imm19, w, got);
    crate::vp_check!(got == want, "inst::b_cond_imm: exactly imm19 instructions");
});

// ---- the range predicates mean what their names say (n-bit two's complement / n-bit unsigned)
crate::vp_harness!(fits_signed, |s| {
    let x = s.i32();
    crate::vp_check!(fits_i7(x) == (-64 <= x && x < 64), "fits_i7 is the 7-bit signed range");
    crate::vp_check!(fits_i9(x) == (-256 <= x && x < 256), "fits_i9 is the 9-bit signed range");
    crate::vp_check!(fits_i14(x) == (-8192 <= x && x < 8192), "fits_i14 is the 14-bit signed range");
    crate::vp_check!(fits_i19(x) == (-262144 <= x && x < 262144), "fits_i19 is the 19-bit signed range");
    crate::vp_check!(fits_i21(x) == (-1048576 <= x && x < 1048576), "fits_i21 is the 21-bit signed range");
    crate::vp_check!(fits_i26(x) == (-33554432 <= x && x < 33554432), "fits_i26 is the 26-bit signed range");
});
crate::vp_harness!(fits_unsigned, |s| {
    let x = s.u32();
    crate::vp_check!(fits_bit(x) == (x < 2), "fits_bit");
    crate::vp_check!(fits_u2(x) == (x < 4), "fits_u2");
    crate::vp_check!(fits_u3(x) == (x < 8), "fits_u3");
    crate::vp_check!(fits_u4(x) == (x < 16), "fits_u4");
    crate::vp_check!(fits_u5(x) == (x < 32), "fits_u5");
    crate::vp_check!(fits_u6(x) == (x < 64), "fits_u6");
    crate::vp_check!(fits_u7(x) == (x < 128), "fits_u7");
    crate::vp_check!(fits_u12(x) == (x < 4096), "fits_u12");
    crate::vp_check!(fits_u13(x) == (x < 8192), "fits_u13");
    crate::vp_check!(fits_u16(x) == (x < 65536), "fits_u16");
});
