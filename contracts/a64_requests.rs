//! Contract rows for the public methods of AssemblerArm64 (dora-asm/src/arm64.rs).
//! One row per method: operands over the full type domain, call on the REAL assembler,
//! postcondition = the emitted word decodes (reference decoder a64dec) to the request.
//! "Returned ⇒ decoded == requested": an operand that cannot be encoded must make the call
//! panic (refusal); a silently truncated field shows up as a decode mismatch.
use crate::a64dec::*;
use crate::vp::Src;
use dora_asm::arm64::*;

/// a register operand over the whole type domain: x0..x30, REG_ZERO, REG_SP.
/// Returns the assembler's value and how the request names it.
pub fn reg(s: &mut Src) -> (Register, R) {
    let k = s.below(33);
    if k < 31 { (Register::new(k), R::X(k)) } else if k == 31 { (REG_ZERO, R::Zr) } else { (REG_SP, R::Sp) }
}
pub fn one_word(a: AssemblerArm64) -> u32 {
    let code = a.finalize(1).code();
    crate::vp_check!(code.len() == 4, "exactly one instruction word emitted");
    u32::from_le_bytes([code[0], code[1], code[2], code[3]])
}

crate::vp_harness!(add_imm, |s| {
    let (rd, qd) = reg(s); let (rn, qn) = reg(s); let imm = s.u32();
    let mut a = AssemblerArm64::new();
    a.add_imm(rd, rn, imm);
    let got = decode(one_word(a));
    let mut want = Insn::new(Op::AddImm);
    want.sf = 64; want.rd = qd; want.rn = qn; want.imm = imm as i64;
    crate::vp_note!("got {:?} want {:?}", got, want);
    crate::vp_check!(got == want, "add_imm decodes to ADD (immediate), 64-bit, requested rd/rn/imm");
});
