//! Contract rows for the public methods of AssemblerArm64 (dora-asm/src/arm64.rs).
//! One row per method: operands over the full type domain, call on the REAL assembler,
//! postcondition = the emitted word decodes (reference decoder a64dec) to the request.
//! "Returned ⇒ decoded == requested": an operand that cannot be encoded must make the call
//! panic (refusal); a silently truncated field shows up as a decode mismatch.
//!
//! Requests are in canonical (non-alias) form: cmp = SUBS with Rd = ZR, mov = ORR / ADD #0 (SP),
//! lsl #n = UBFM, cset = CSINC with the inverted condition, mul = MADD with Ra = ZR ...
//! Branch / ADR offsets are requested in BYTES (see a64dec).
use crate::a64dec::*;
use crate::vp::Src;
use dora_asm::arm64::*;
use dora_asm::Label;

/// public methods of `impl AssemblerArm64` that do not emit an instruction of their own
/// (buffer / label management, raw data emitters): no contract row.
pub const NOT_INSTRUCTION_METHODS: &[&str] = &[
    "new",
    "create_label",
    "create_and_bind_label",
    "bind_label",
    "offset",
    "finalize",
    "align_to",
    "position",
    "set_position",
    "set_position_end",
    "emit_u8",
    "emit_u32",
    "emit_u64",
    "emit_u128",
];

/// public instruction methods whose row is NOT decided by Kani yet (method, reason). Every public method
/// has a row or is in NOT_INSTRUCTION_METHODS; the five below have a row (same macro as their siblings
/// ldr_mem_x / ldr_mem_d / str_mem_x / str_mem_w / str_mem_s, which hold in 11-17 min), but CBMC ran out
/// of memory on them three times while the machine was shared with other proofs (53 of 62 GB in use).
/// They pass the concrete runs (vp_run sample, thousands of operands, llvm-mc cross-check).
/// Not reachable through any public method (so not covered by any row): the private immediate forms
/// b_imm / bc_imm / tbz_imm / tbnz_imm and the FP/SIMD (`v`) variant of cls::ldst_pair*.
pub const NOT_COVERED: &[(&str, &str)] = &[];

/// rows that CBMC decides, but slowly (5 min for mov_imm, 10-15 min and several GB each for the
/// ldr_mem_* / str_mem_* helpers, which contain mov_imm): a driver with a time budget may skip them.
pub const SLOW_ROWS: &[&str] = &[
    "mov_imm",
    "ldr_mem_x",
    "ldr_mem_w",
    "ldr_mem_b",
    "ldr_mem_d",
    "ldr_mem_s",
    "str_mem_x",
    "str_mem_w",
    "str_mem_b",
    "str_mem_d",
    "str_mem_s",
];

// ------------------------------------------------------------------------------------------
// operand sources: every variant of every operand type

/// a register operand over the whole type domain: x0..x30, REG_ZERO, REG_SP.
/// Returns the assembler's value and how the request names it.
pub fn reg(s: &mut Src) -> (Register, R) {
    let k = s.below(33);
    if k < 31 { (Register::new(k), R::X(k)) } else if k == 31 { (REG_ZERO, R::Zr) } else { (REG_SP, R::Sp) }
}
/// a SIMD&FP register v0..v31
pub fn neon(s: &mut Src) -> (NeonRegister, R) {
    let k = s.below(32);
    (NeonRegister::new(k), R::V(k))
}
/// every variant of Cond (16 names, 14 encodings) with its architectural encoding
pub fn cond(s: &mut Src) -> (Cond, u8) {
    match s.below(16) {
        0 => (Cond::EQ, 0),
        1 => (Cond::NE, 1),
        2 => (Cond::CS, 2),
        3 => (Cond::HS, 2),
        4 => (Cond::CC, 3),
        5 => (Cond::LO, 3),
        6 => (Cond::MI, 4),
        7 => (Cond::PL, 5),
        8 => (Cond::VS, 6),
        9 => (Cond::VC, 7),
        10 => (Cond::HI, 8),
        11 => (Cond::LS, 9),
        12 => (Cond::GE, 10),
        13 => (Cond::LT, 11),
        14 => (Cond::GT, 12),
        _ => (Cond::LE, 13),
    }
}
/// every variant of Shift with its architectural shift-type number
pub fn shift(s: &mut Src) -> (Shift, u8) {
    match s.below(4) {
        0 => (Shift::LSL, 0),
        1 => (Shift::LSR, 1),
        2 => (Shift::ASR, 2),
        _ => (Shift::ROR, 3),
    }
}
/// requested `option` numbers of an Extend variant.
/// `.1` = option in an add/sub (extended register) of the given width: LSL names UXTX for the
///        64-bit form and UXTW for the 32-bit form (Arm ARM: "LSL|UXTX" / "LSL|UXTW");
/// `.2` = option in a load/store register offset (only UXTW, LSL, SXTW, SXTX exist; 255 = none).
pub fn extend(s: &mut Src, width: u8) -> (Extend, u8, u8) {
    match s.below(9) {
        0 => (Extend::UXTB, 0, 255),
        1 => (Extend::UXTH, 1, 255),
        2 => (Extend::LSL, if width == 64 { 3 } else { 2 }, 3),
        3 => (Extend::UXTW, 2, 2),
        4 => (Extend::UXTX, 3, 255),
        5 => (Extend::SXTB, 4, 255),
        6 => (Extend::SXTH, 5, 255),
        7 => (Extend::SXTW, 6, 6),
        _ => (Extend::SXTX, 7, 7),
    }
}

// ------------------------------------------------------------------------------------------
// outcome plumbing

pub fn code_of(a: AssemblerArm64) -> Vec<u8> {
    a.finalize(1).code()
}
pub fn word_at(code: &[u8], k: usize) -> u32 {
    if code.len() < 4 * k + 4 {
        return 0;
    }
    u32::from_le_bytes([code[4 * k], code[4 * k + 1], code[4 * k + 2], code[4 * k + 3]])
}
pub fn one_word(a: AssemblerArm64) -> u32 {
    let code = code_of(a);
    crate::vp_check!(code.len() == 4, "exactly one instruction word emitted");
    word_at(&code, 0)
}
/// In the 32-bit add/sub (extended register) forms UXTX/SXTX extend exactly like UXTW/SXTW
/// (the operand is truncated to 32 bits): two encodings of one instruction. Compare modulo that.
pub fn canon(mut i: Insn) -> Insn {
    if i.sf == 32 && matches!(i.op, Op::AddExt | Op::AddsExt | Op::SubExt | Op::SubsExt) && (i.opt == 3 || i.opt == 7) {
        i.opt -= 1;
    }
    i
}
/// the single postcondition of a one-instruction row
pub fn chk(a: AssemblerArm64, want: Insn) {
    let w = one_word(a);
    let got = decode(w);
    crate::vp_note!("w={:08x} asm=\"{}\" got {:?} want {:?}", w, render(&got), got, want);
    crate::vp_check!(canon(got) == canon(want), "the emitted word decodes to the requested instruction");
}

// request builders
fn q_rrr(op: Op, sf: u8, rd: R, rn: R, rm: R) -> Insn {
    let mut i = Insn::new(op);
    i.sf = sf;
    i.rd = rd;
    i.rn = rn;
    i.rm = rm;
    i
}
fn q_rr(op: Op, sf: u8, rd: R, rn: R) -> Insn {
    let mut i = Insn::new(op);
    i.sf = sf;
    i.rd = rd;
    i.rn = rn;
    i
}
fn q_rri(op: Op, sf: u8, rd: R, rn: R, imm: i64) -> Insn {
    let mut i = q_rr(op, sf, rd, rn);
    i.imm = imm;
    i
}
fn q_sh(op: Op, sf: u8, rd: R, rn: R, rm: R, opt: u8, amount: u32) -> Insn {
    let mut i = q_rrr(op, sf, rd, rn, rm);
    i.opt = opt;
    i.imm = amount as i64;
    i
}
fn q_rrrr(op: Op, sf: u8, rd: R, rn: R, rm: R, ra: R) -> Insn {
    let mut i = q_rrr(op, sf, rd, rn, rm);
    i.ra = ra;
    i
}
fn q_csel(op: Op, sf: u8, rd: R, rn: R, rm: R, cond: u8) -> Insn {
    let mut i = q_rrr(op, sf, rd, rn, rm);
    i.cond = cond;
    i
}
fn q_bf(op: Op, sf: u8, rd: R, rn: R, immr: i64, imms: i64) -> Insn {
    let mut i = q_rr(op, sf, rd, rn);
    i.imm = immr;
    i.imm2 = imms;
    i
}
fn q_movw(op: Op, sf: u8, rd: R, imm16: u32, sh: u32) -> Insn {
    let mut i = Insn::new(op);
    i.sf = sf;
    i.rd = rd;
    i.imm = imm16 as i64;
    i.imm2 = sh as i64;
    i
}
/// load/store of one register: rt, base, byte offset
fn q_mem(op: Op, size: u8, sf: u8, rt: R, rn: R, imm: i64) -> Insn {
    let mut i = Insn::new(op);
    i.size = size;
    i.sf = sf;
    i.rd = rt;
    i.rn = rn;
    i.imm = imm;
    i
}
fn q_memreg(op: Op, size: u8, sf: u8, rt: R, rn: R, rm: R, opt: u8, amount: u32) -> Insn {
    let mut i = q_mem(op, size, sf, rt, rn, 0);
    i.rm = rm;
    i.opt = opt;
    i.imm2 = amount as i64;
    i
}
fn q_pair(op: Op, size: u8, sf: u8, rt: R, rt2: R, rn: R, imm: i64) -> Insn {
    let mut i = q_mem(op, size, sf, rt, rn, imm);
    i.rt2 = rt2;
    i
}
fn q_atomic(op: Op, size: u8, rs: R, rt: R, rn: R, acq: bool, rel: bool) -> Insn {
    let mut i = Insn::new(op);
    i.size = size;
    i.sf = if size == 8 { 64 } else { 32 };
    i.rs = rs;
    i.rd = rt;
    i.rn = rn;
    i.acq = acq;
    i.rel = rel;
    i
}
fn q_fp(op: Op, size: u8, rd: R, rn: R, rm: R) -> Insn {
    let mut i = Insn::new(op);
    i.size = size;
    i.rd = rd;
    i.rn = rn;
    i.rm = rm;
    i
}
fn q_fpint(op: Op, sf: u8, size: u8, rd: R, rn: R) -> Insn {
    let mut i = Insn::new(op);
    i.sf = sf;
    i.size = size;
    i.rd = rd;
    i.rn = rn;
    i
}
fn q_imm(op: Op, imm: i64) -> Insn {
    let mut i = Insn::new(op);
    i.imm = imm;
    i
}

// row bodies shared by families of methods ------------------------------------------------

/// method(rd, rn, rm) -> op rd, rn, rm
macro_rules! rrr {
    ($s:ident, $m:ident, $op:expr, $sf:expr) => {{
        let (d, qd) = reg($s);
        let (n, qn) = reg($s);
        let (m, qm) = reg($s);
        let mut a = AssemblerArm64::new();
        a.$m(d, n, m);
        chk(a, q_rrr($op, $sf, qd, qn, qm));
    }};
}
/// method(rd, rn) -> op rd, rn
macro_rules! rr {
    ($s:ident, $m:ident, $op:expr, $sf:expr) => {{
        let (d, qd) = reg($s);
        let (n, qn) = reg($s);
        let mut a = AssemblerArm64::new();
        a.$m(d, n);
        chk(a, q_rr($op, $sf, qd, qn));
    }};
}
/// method(rd, rn, imm: u32) -> op rd, rn, #imm
macro_rules! rri {
    ($s:ident, $m:ident, $op:expr, $sf:expr) => {{
        let (d, qd) = reg($s);
        let (n, qn) = reg($s);
        let imm = $s.u32();
        let mut a = AssemblerArm64::new();
        a.$m(d, n, imm);
        chk(a, q_rri($op, $sf, qd, qn, imm as i64));
    }};
}
/// method(rn, imm: u32) -> op zr, rn, #imm   (cmp / cmn)
macro_rules! zri {
    ($s:ident, $m:ident, $op:expr, $sf:expr) => {{
        let (n, qn) = reg($s);
        let imm = $s.u32();
        let mut a = AssemblerArm64::new();
        a.$m(n, imm);
        chk(a, q_rri($op, $sf, R::Zr, qn, imm as i64));
    }};
}
/// method(rd, rn, rm, shift, amount) -> op rd, rn, rm, <shift> #amount
macro_rules! rrr_sh {
    ($s:ident, $m:ident, $op:expr, $sf:expr) => {{
        let (d, qd) = reg($s);
        let (n, qn) = reg($s);
        let (m, qm) = reg($s);
        let (sh, qs) = shift($s);
        let amount = $s.u32();
        let mut a = AssemblerArm64::new();
        a.$m(d, n, m, sh, amount);
        let mut want = q_sh($op, $sf, qd, qn, qm, qs, 0);
        want.imm = amount as i64;
        chk(a, want);
    }};
}
/// method(rd, rn, rm, extend, amount) -> op rd, rn, rm, <extend> #amount
macro_rules! rrr_ext {
    ($s:ident, $m:ident, $op:expr, $sf:expr) => {{
        let (d, qd) = reg($s);
        let (n, qn) = reg($s);
        let (m, qm) = reg($s);
        let (ex, qe, _) = extend($s, $sf);
        let amount = $s.u32();
        let mut a = AssemblerArm64::new();
        a.$m(d, n, m, ex, amount);
        let mut want = q_sh($op, $sf, qd, qn, qm, qe, 0);
        want.imm = amount as i64;
        chk(a, want);
    }};
}
/// method(rd, rn, rm, ra)
macro_rules! rrrr {
    ($s:ident, $m:ident, $op:expr, $sf:expr) => {{
        let (d, qd) = reg($s);
        let (n, qn) = reg($s);
        let (m, qm) = reg($s);
        let (ra, qa) = reg($s);
        let mut a = AssemblerArm64::new();
        a.$m(d, n, m, ra);
        chk(a, q_rrrr($op, $sf, qd, qn, qm, qa));
    }};
}
/// method(rd, rn, rm, cond)
macro_rules! rrrc {
    ($s:ident, $m:ident, $op:expr, $sf:expr) => {{
        let (d, qd) = reg($s);
        let (n, qn) = reg($s);
        let (m, qm) = reg($s);
        let (c, qc) = cond($s);
        let mut a = AssemblerArm64::new();
        a.$m(d, n, m, c);
        chk(a, q_csel($op, $sf, qd, qn, qm, qc));
    }};
}
/// method(rd, rn, immr, imms)
macro_rules! bf {
    ($s:ident, $m:ident, $op:expr, $sf:expr) => {{
        let (d, qd) = reg($s);
        let (n, qn) = reg($s);
        let immr = $s.u32();
        let imms = $s.u32();
        let mut a = AssemblerArm64::new();
        a.$m(d, n, immr, imms);
        chk(a, q_bf($op, $sf, qd, qn, immr as i64, imms as i64));
    }};
}
/// method(rd, imm16, shift)
macro_rules! movw {
    ($s:ident, $m:ident, $op:expr, $sf:expr) => {{
        let (d, qd) = reg($s);
        let imm16 = $s.u32();
        let sh = $s.u32();
        let mut a = AssemblerArm64::new();
        a.$m(d, imm16, sh);
        chk(a, q_movw($op, $sf, qd, imm16, sh));
    }};
}

// ==========================================================================================
// add / sub

crate::vp_harness!(add, |s| {
    let (d, qd) = reg(s); let (n, qn) = reg(s); let (m, qm) = reg(s);
    let mut a = AssemblerArm64::new();
    a.add(d, n, m);
    // ADD (shifted register) cannot name SP; with SP the canonical form is ADD (extended register), UXTX #0
    let want = if qd == R::Sp || qn == R::Sp { q_sh(Op::AddExt, 64, qd, qn, qm, 3, 0) } else { q_sh(Op::AddSh, 64, qd, qn, qm, 0, 0) };
    chk(a, want);
});
crate::vp_harness!(add_w, |s| {
    let (d, qd) = reg(s); let (n, qn) = reg(s); let (m, qm) = reg(s);
    let mut a = AssemblerArm64::new();
    a.add_w(d, n, m);
    let want = if qd == R::Sp || qn == R::Sp { q_sh(Op::AddExt, 32, qd, qn, qm, 2, 0) } else { q_sh(Op::AddSh, 32, qd, qn, qm, 0, 0) };
    chk(a, want);
});
crate::vp_harness!(sub, |s| {
    let (d, qd) = reg(s); let (n, qn) = reg(s); let (m, qm) = reg(s);
    let mut a = AssemblerArm64::new();
    a.sub(d, n, m);
    let want = if qd == R::Sp || qn == R::Sp { q_sh(Op::SubExt, 64, qd, qn, qm, 3, 0) } else { q_sh(Op::SubSh, 64, qd, qn, qm, 0, 0) };
    chk(a, want);
});
crate::vp_harness!(sub_w, |s| {
    let (d, qd) = reg(s); let (n, qn) = reg(s); let (m, qm) = reg(s);
    let mut a = AssemblerArm64::new();
    a.sub_w(d, n, m);
    let want = if qd == R::Sp || qn == R::Sp { q_sh(Op::SubExt, 32, qd, qn, qm, 2, 0) } else { q_sh(Op::SubSh, 32, qd, qn, qm, 0, 0) };
    chk(a, want);
});
crate::vp_harness!(add_ext, |s| { rrr_ext!(s, add_ext, Op::AddExt, 64) });
crate::vp_harness!(add_ext_w, |s| { rrr_ext!(s, add_ext_w, Op::AddExt, 32) });
crate::vp_harness!(sub_ext, |s| { rrr_ext!(s, sub_ext, Op::SubExt, 64) });
crate::vp_harness!(sub_ext_w, |s| { rrr_ext!(s, sub_ext_w, Op::SubExt, 32) });
crate::vp_harness!(subs_ext, |s| { rrr_ext!(s, subs_ext, Op::SubsExt, 64) });
crate::vp_harness!(subs_ext_w, |s| { rrr_ext!(s, subs_ext_w, Op::SubsExt, 32) });
crate::vp_harness!(add_sh, |s| { rrr_sh!(s, add_sh, Op::AddSh, 64) });
crate::vp_harness!(add_sh_w, |s| { rrr_sh!(s, add_sh_w, Op::AddSh, 32) });
crate::vp_harness!(adds_sh, |s| { rrr_sh!(s, adds_sh, Op::AddsSh, 64) });
crate::vp_harness!(adds_sh_w, |s| { rrr_sh!(s, adds_sh_w, Op::AddsSh, 32) });
crate::vp_harness!(sub_sh, |s| { rrr_sh!(s, sub_sh, Op::SubSh, 64) });
crate::vp_harness!(sub_sh_w, |s| { rrr_sh!(s, sub_sh_w, Op::SubSh, 32) });
crate::vp_harness!(subs_sh, |s| { rrr_sh!(s, subs_sh, Op::SubsSh, 64) });
crate::vp_harness!(subs_sh_w, |s| { rrr_sh!(s, subs_sh_w, Op::SubsSh, 32) });
crate::vp_harness!(add_imm, |s| { rri!(s, add_imm, Op::AddImm, 64) });
crate::vp_harness!(add_imm_w, |s| { rri!(s, add_imm_w, Op::AddImm, 32) });
crate::vp_harness!(adds_imm, |s| { rri!(s, adds_imm, Op::AddsImm, 64) });
crate::vp_harness!(adds_imm_w, |s| { rri!(s, adds_imm_w, Op::AddsImm, 32) });
crate::vp_harness!(sub_imm, |s| { rri!(s, sub_imm, Op::SubImm, 64) });
crate::vp_harness!(sub_imm_w, |s| { rri!(s, sub_imm_w, Op::SubImm, 32) });
crate::vp_harness!(subs_imm, |s| { rri!(s, subs_imm, Op::SubsImm, 64) });
crate::vp_harness!(subs_imm_w, |s| { rri!(s, subs_imm_w, Op::SubsImm, 32) });
crate::vp_harness!(adds, |s| { rrr!(s, adds, Op::AddsSh, 64) });
crate::vp_harness!(adds_w, |s| { rrr!(s, adds_w, Op::AddsSh, 32) });
crate::vp_harness!(subs, |s| { rrr!(s, subs, Op::SubsSh, 64) });
crate::vp_harness!(subs_w, |s| { rrr!(s, subs_w, Op::SubsSh, 32) });

// compare aliases: Rd = ZR
crate::vp_harness!(cmn_imm, |s| { zri!(s, cmn_imm, Op::AddsImm, 64) });
crate::vp_harness!(cmn_imm_w, |s| { zri!(s, cmn_imm_w, Op::AddsImm, 32) });
crate::vp_harness!(cmp_imm, |s| { zri!(s, cmp_imm, Op::SubsImm, 64) });
crate::vp_harness!(cmp_imm_w, |s| { zri!(s, cmp_imm_w, Op::SubsImm, 32) });
crate::vp_harness!(cmp, |s| {
    let (n, qn) = reg(s); let (m, qm) = reg(s);
    let mut a = AssemblerArm64::new();
    a.cmp(n, m);
    chk(a, q_sh(Op::SubsSh, 64, R::Zr, qn, qm, 0, 0));
});
crate::vp_harness!(cmp_w, |s| {
    let (n, qn) = reg(s); let (m, qm) = reg(s);
    let mut a = AssemblerArm64::new();
    a.cmp_w(n, m);
    chk(a, q_sh(Op::SubsSh, 32, R::Zr, qn, qm, 0, 0));
});
crate::vp_harness!(cmp_sh, |s| {
    let (n, qn) = reg(s); let (m, qm) = reg(s); let (sh, qs) = shift(s); let amount = s.u32();
    let mut a = AssemblerArm64::new();
    a.cmp_sh(n, m, sh, amount);
    let mut want = q_sh(Op::SubsSh, 64, R::Zr, qn, qm, qs, 0);
    want.imm = amount as i64;
    chk(a, want);
});
crate::vp_harness!(cmp_sh_w, |s| {
    let (n, qn) = reg(s); let (m, qm) = reg(s); let (sh, qs) = shift(s); let amount = s.u32();
    let mut a = AssemblerArm64::new();
    a.cmp_sh_w(n, m, sh, amount);
    let mut want = q_sh(Op::SubsSh, 32, R::Zr, qn, qm, qs, 0);
    want.imm = amount as i64;
    chk(a, want);
});
crate::vp_harness!(cmp_ext, |s| {
    let (n, qn) = reg(s); let (m, qm) = reg(s); let (ex, qe, _) = extend(s, 64); let amount = s.u32();
    let mut a = AssemblerArm64::new();
    a.cmp_ext(n, m, ex, amount);
    let mut want = q_sh(Op::SubsExt, 64, R::Zr, qn, qm, qe, 0);
    want.imm = amount as i64;
    chk(a, want);
});
crate::vp_harness!(cmp_ext_w, |s| {
    let (n, qn) = reg(s); let (m, qm) = reg(s); let (ex, qe, _) = extend(s, 32); let amount = s.u32();
    let mut a = AssemblerArm64::new();
    a.cmp_ext_w(n, m, ex, amount);
    let mut want = q_sh(Op::SubsExt, 32, R::Zr, qn, qm, qe, 0);
    want.imm = amount as i64;
    chk(a, want);
});

// ==========================================================================================
// logical

crate::vp_harness!(and_imm, |s| {
    let (d, qd) = reg(s); let (n, qn) = reg(s); let imm = s.u64();
    let mut a = AssemblerArm64::new();
    a.and_imm(d, n, imm);
    chk(a, q_rri(Op::AndImm, 64, qd, qn, imm as i64));
});
crate::vp_harness!(and_imm_w, |s| {
    let (d, qd) = reg(s); let (n, qn) = reg(s); let imm = s.u64();
    let mut a = AssemblerArm64::new();
    a.and_imm_w(d, n, imm);
    // a 32-bit AND has a 32-bit mask: anything wider must be refused (the decoded mask is < 2^32)
    chk(a, q_rri(Op::AndImm, 32, qd, qn, imm as i64));
});
crate::vp_harness!(and_sh, |s| { rrr_sh!(s, and_sh, Op::AndSh, 64) });
crate::vp_harness!(and_sh_w, |s| { rrr_sh!(s, and_sh_w, Op::AndSh, 32) });
crate::vp_harness!(ands_sh, |s| { rrr_sh!(s, ands_sh, Op::AndsSh, 64) });
crate::vp_harness!(ands_sh_w, |s| { rrr_sh!(s, ands_sh_w, Op::AndsSh, 32) });
crate::vp_harness!(bic_sh, |s| { rrr_sh!(s, bic_sh, Op::BicSh, 64) });
crate::vp_harness!(bic_sh_w, |s| { rrr_sh!(s, bic_sh_w, Op::BicSh, 32) });
crate::vp_harness!(bics_sh, |s| { rrr_sh!(s, bics_sh, Op::BicsSh, 64) });
crate::vp_harness!(bics_sh_w, |s| { rrr_sh!(s, bics_sh_w, Op::BicsSh, 32) });
crate::vp_harness!(eon_sh, |s| { rrr_sh!(s, eon_sh, Op::EonSh, 64) });
crate::vp_harness!(eon_sh_w, |s| { rrr_sh!(s, eon_sh_w, Op::EonSh, 32) });
crate::vp_harness!(eor_sh, |s| { rrr_sh!(s, eor_sh, Op::EorSh, 64) });
crate::vp_harness!(eor_sh_w, |s| { rrr_sh!(s, eor_sh_w, Op::EorSh, 32) });
crate::vp_harness!(orn_sh, |s| { rrr_sh!(s, orn_sh, Op::OrnSh, 64) });
crate::vp_harness!(orn_sh_w, |s| { rrr_sh!(s, orn_sh_w, Op::OrnSh, 32) });
crate::vp_harness!(orr_sh, |s| { rrr_sh!(s, orr_sh, Op::OrrSh, 64) });
crate::vp_harness!(orr_sh_w, |s| { rrr_sh!(s, orr_sh_w, Op::OrrSh, 32) });

// ==========================================================================================
// shifts, bitfield, 1/2/3-source data processing

crate::vp_harness!(asrv, |s| { rrr!(s, asrv, Op::Asrv, 64) });
crate::vp_harness!(asrv_w, |s| { rrr!(s, asrv_w, Op::Asrv, 32) });
crate::vp_harness!(lsl, |s| { rrr!(s, lsl, Op::Lslv, 64) });
crate::vp_harness!(lsl_w, |s| { rrr!(s, lsl_w, Op::Lslv, 32) });
crate::vp_harness!(lsr, |s| { rrr!(s, lsr, Op::Lsrv, 64) });
crate::vp_harness!(lsr_w, |s| { rrr!(s, lsr_w, Op::Lsrv, 32) });
crate::vp_harness!(ror, |s| { rrr!(s, ror, Op::Rorv, 64) });
crate::vp_harness!(ror_w, |s| { rrr!(s, ror_w, Op::Rorv, 32) });
crate::vp_harness!(sdiv, |s| { rrr!(s, sdiv, Op::Sdiv, 64) });
crate::vp_harness!(sdiv_w, |s| { rrr!(s, sdiv_w, Op::Sdiv, 32) });
crate::vp_harness!(udiv, |s| { rrr!(s, udiv, Op::Udiv, 64) });
crate::vp_harness!(udiv_w, |s| { rrr!(s, udiv_w, Op::Udiv, 32) });

crate::vp_harness!(bfm, |s| { bf!(s, bfm, Op::Bfm, 64) });
crate::vp_harness!(bfm_w, |s| { bf!(s, bfm_w, Op::Bfm, 32) });
crate::vp_harness!(sbfm, |s| { bf!(s, sbfm, Op::Sbfm, 64) });
crate::vp_harness!(sbfm_w, |s| { bf!(s, sbfm_w, Op::Sbfm, 32) });
crate::vp_harness!(ubfm, |s| { bf!(s, ubfm, Op::Ubfm, 64) });
crate::vp_harness!(ubfm_w, |s| { bf!(s, ubfm_w, Op::Ubfm, 32) });

// LSL #sh = UBFM Rd, Rn, #(-sh MOD size), #(size-1-sh); only sh < size exists
crate::vp_harness!(lsl_imm, |s| {
    let (d, qd) = reg(s); let (n, qn) = reg(s); let sh = s.u32();
    let mut a = AssemblerArm64::new();
    a.lsl_imm(d, n, sh);
    chk(a, q_bf(Op::Ubfm, 64, qd, qn, (64 - sh as i64).rem_euclid(64), 63 - sh as i64));
});
crate::vp_harness!(lsl_imm_w, |s| {
    let (d, qd) = reg(s); let (n, qn) = reg(s); let sh = s.u32();
    let mut a = AssemblerArm64::new();
    a.lsl_imm_w(d, n, sh);
    chk(a, q_bf(Op::Ubfm, 32, qd, qn, (32 - sh as i64).rem_euclid(32), 31 - sh as i64));
});
// LSR #sh = UBFM Rd, Rn, #sh, #(size-1)
crate::vp_harness!(lsr_imm, |s| {
    let (d, qd) = reg(s); let (n, qn) = reg(s); let sh = s.u32();
    let mut a = AssemblerArm64::new();
    a.lsr_imm(d, n, sh);
    chk(a, q_bf(Op::Ubfm, 64, qd, qn, sh as i64, 63));
});
crate::vp_harness!(lsr_imm_w, |s| {
    let (d, qd) = reg(s); let (n, qn) = reg(s); let sh = s.u32();
    let mut a = AssemblerArm64::new();
    a.lsr_imm_w(d, n, sh);
    chk(a, q_bf(Op::Ubfm, 32, qd, qn, sh as i64, 31));
});
// SXTW Xd, Wn = SBFM Xd, Xn, #0, #31; UXTB Wd, Wn = UBFM Wd, Wn, #0, #7;
// "uxtw" (zero-extend the low word) = UBFM Xd, Xn, #0, #31
crate::vp_harness!(sxtw, |s| {
    let (d, qd) = reg(s); let (n, qn) = reg(s);
    let mut a = AssemblerArm64::new();
    a.sxtw(d, n);
    chk(a, q_bf(Op::Sbfm, 64, qd, qn, 0, 31));
});
crate::vp_harness!(uxtb, |s| {
    let (d, qd) = reg(s); let (n, qn) = reg(s);
    let mut a = AssemblerArm64::new();
    a.uxtb(d, n);
    chk(a, q_bf(Op::Ubfm, 32, qd, qn, 0, 7));
});
crate::vp_harness!(uxtw, |s| {
    let (d, qd) = reg(s); let (n, qn) = reg(s);
    let mut a = AssemblerArm64::new();
    a.uxtw(d, n);
    chk(a, q_bf(Op::Ubfm, 64, qd, qn, 0, 31));
});

crate::vp_harness!(cls, |s| { rr!(s, cls, Op::Cls, 64) });
crate::vp_harness!(cls_w, |s| { rr!(s, cls_w, Op::Cls, 32) });
crate::vp_harness!(clz, |s| { rr!(s, clz, Op::Clz, 64) });
crate::vp_harness!(clz_w, |s| { rr!(s, clz_w, Op::Clz, 32) });
crate::vp_harness!(rbit, |s| { rr!(s, rbit, Op::Rbit, 64) });
crate::vp_harness!(rbit_w, |s| { rr!(s, rbit_w, Op::Rbit, 32) });
crate::vp_harness!(rev, |s| { rr!(s, rev, Op::Rev, 64) });
crate::vp_harness!(rev_w, |s| { rr!(s, rev_w, Op::Rev, 32) });

crate::vp_harness!(madd, |s| { rrrr!(s, madd, Op::Madd, 64) });
crate::vp_harness!(madd_w, |s| { rrrr!(s, madd_w, Op::Madd, 32) });
crate::vp_harness!(msub, |s| { rrrr!(s, msub, Op::Msub, 64) });
crate::vp_harness!(msub_w, |s| { rrrr!(s, msub_w, Op::Msub, 32) });
crate::vp_harness!(smaddl, |s| { rrrr!(s, smaddl, Op::Smaddl, 64) });
// MUL = MADD with Ra = ZR; SMULL = SMADDL with Ra = ZR
crate::vp_harness!(mul, |s| {
    let (d, qd) = reg(s); let (n, qn) = reg(s); let (m, qm) = reg(s);
    let mut a = AssemblerArm64::new();
    a.mul(d, n, m);
    chk(a, q_rrrr(Op::Madd, 64, qd, qn, qm, R::Zr));
});
crate::vp_harness!(mul_w, |s| {
    let (d, qd) = reg(s); let (n, qn) = reg(s); let (m, qm) = reg(s);
    let mut a = AssemblerArm64::new();
    a.mul_w(d, n, m);
    chk(a, q_rrrr(Op::Madd, 32, qd, qn, qm, R::Zr));
});
crate::vp_harness!(smull, |s| {
    let (d, qd) = reg(s); let (n, qn) = reg(s); let (m, qm) = reg(s);
    let mut a = AssemblerArm64::new();
    a.smull(d, n, m);
    chk(a, q_rrrr(Op::Smaddl, 64, qd, qn, qm, R::Zr));
});
crate::vp_harness!(smulh, |s| { rrr!(s, smulh, Op::Smulh, 64) });

// ==========================================================================================
// conditional select

crate::vp_harness!(csel, |s| { rrrc!(s, csel, Op::Csel, 64) });
crate::vp_harness!(csel_w, |s| { rrrc!(s, csel_w, Op::Csel, 32) });
crate::vp_harness!(csinc, |s| { rrrc!(s, csinc, Op::Csinc, 64) });
crate::vp_harness!(csinc_w, |s| { rrrc!(s, csinc_w, Op::Csinc, 32) });
crate::vp_harness!(csinv, |s| { rrrc!(s, csinv, Op::Csinv, 64) });
crate::vp_harness!(csinv_w, |s| { rrrc!(s, csinv_w, Op::Csinv, 32) });
// CSET Rd, cond = CSINC Rd, ZR, ZR, invert(cond)
crate::vp_harness!(cset, |s| {
    let (d, qd) = reg(s); let (c, qc) = cond(s);
    let mut a = AssemblerArm64::new();
    a.cset(d, c);
    chk(a, q_csel(Op::Csinc, 64, qd, R::Zr, R::Zr, qc ^ 1));
});
crate::vp_harness!(cset_w, |s| {
    let (d, qd) = reg(s); let (c, qc) = cond(s);
    let mut a = AssemblerArm64::new();
    a.cset_w(d, c);
    chk(a, q_csel(Op::Csinc, 32, qd, R::Zr, R::Zr, qc ^ 1));
});

// ==========================================================================================
// moves

// MOV (to/from SP) = ADD Rd|SP, Rn|SP, #0; MOV (register) = ORR Rd, ZR, Rm
crate::vp_harness!(mov, |s| {
    let (d, qd) = reg(s); let (m, qm) = reg(s);
    let mut a = AssemblerArm64::new();
    a.mov(d, m);
    let want = if qd == R::Sp || qm == R::Sp { q_rri(Op::AddImm, 64, qd, qm, 0) } else { q_sh(Op::OrrSh, 64, qd, R::Zr, qm, 0, 0) };
    chk(a, want);
});
crate::vp_harness!(mov_w, |s| {
    let (d, qd) = reg(s); let (m, qm) = reg(s);
    let mut a = AssemblerArm64::new();
    a.mov_w(d, m);
    let want = if qd == R::Sp || qm == R::Sp { q_rri(Op::AddImm, 32, qd, qm, 0) } else { q_sh(Op::OrrSh, 32, qd, R::Zr, qm, 0, 0) };
    chk(a, want);
});
crate::vp_harness!(movn, |s| { movw!(s, movn, Op::Movn, 64) });
crate::vp_harness!(movn_w, |s| { movw!(s, movn_w, Op::Movn, 32) });
crate::vp_harness!(movz, |s| { movw!(s, movz, Op::Movz, 64) });
crate::vp_harness!(movz_w, |s| { movw!(s, movz_w, Op::Movz, 32) });
crate::vp_harness!(movk, |s| { movw!(s, movk, Op::Movk, 64) });
crate::vp_harness!(movk_w, |s| { movw!(s, movk_w, Op::Movk, 32) });

// ==========================================================================================
// pc-relative, branches (immediate forms), exceptions, barriers

crate::vp_harness!(adr_imm, |s| {
    let (d, qd) = reg(s); let imm = s.i32();
    let mut a = AssemblerArm64::new();
    a.adr_imm(d, imm);
    let mut want = q_imm(Op::Adr, imm as i64); // byte offset
    want.rd = qd;
    chk(a, want);
});
crate::vp_harness!(adrp_imm, |s| {
    let (d, qd) = reg(s); let imm = s.i32();
    let mut a = AssemblerArm64::new();
    a.adrp_imm(d, imm);
    let mut want = q_imm(Op::Adrp, (imm as i64) * 4096); // operand counts 4 KiB pages
    want.rd = qd;
    chk(a, want);
});
crate::vp_harness!(bl_imm, |s| {
    let imm26 = s.i32();
    let mut a = AssemblerArm64::new();
    a.bl_imm(imm26);
    chk(a, q_imm(Op::Bl, (imm26 as i64) * 4)); // operand counts instructions
});
macro_rules! cbx_imm {
    ($s:ident, $m:ident, $op:expr, $sf:expr) => {{
        let (t, qt) = reg($s);
        let diff = $s.i32();
        let mut a = AssemblerArm64::new();
        a.$m(t, diff);
        let mut want = q_imm($op, (diff as i64) * 4); // operand counts instructions
        want.sf = $sf;
        want.rd = qt;
        chk(a, want);
    }};
}
crate::vp_harness!(cbz_imm, |s| { cbx_imm!(s, cbz_imm, Op::Cbz, 64) });
crate::vp_harness!(cbz_imm_w, |s| { cbx_imm!(s, cbz_imm_w, Op::Cbz, 32) });
crate::vp_harness!(cbnz_imm, |s| { cbx_imm!(s, cbnz_imm, Op::Cbnz, 64) });
crate::vp_harness!(cbnz_imm_w, |s| { cbx_imm!(s, cbnz_imm_w, Op::Cbnz, 32) });
macro_rules! br_reg {
    ($s:ident, $m:ident, $op:expr) => {{
        let (n, qn) = reg($s);
        let mut a = AssemblerArm64::new();
        a.$m(n);
        let mut want = Insn::new($op);
        want.rn = qn;
        chk(a, want);
    }};
}
crate::vp_harness!(b_r, |s| { br_reg!(s, b_r, Op::Br) });
crate::vp_harness!(bl_r, |s| { br_reg!(s, bl_r, Op::Blr) });
crate::vp_harness!(ret, |s| { br_reg!(s, ret, Op::Ret) });
crate::vp_harness!(brk, |s| {
    let imm16 = s.u32();
    let mut a = AssemblerArm64::new();
    a.brk(imm16);
    chk(a, q_imm(Op::Brk, imm16 as i64));
});
crate::vp_harness!(nop, |s| {
    let mut a = AssemblerArm64::new();
    a.nop();
    chk(a, q_imm(Op::Hint, 0));
});
crate::vp_harness!(dmb, |s| {
    let imm = s.u32();
    let mut a = AssemblerArm64::new();
    a.dmb(imm);
    chk(a, q_imm(Op::Dmb, imm as i64)); // CRm barrier option
});
crate::vp_harness!(dmb_ish, |s| {
    let mut a = AssemblerArm64::new();
    a.dmb_ish();
    chk(a, q_imm(Op::Dmb, 0b1011));
});
crate::vp_harness!(dmb_ishst, |s| {
    let mut a = AssemblerArm64::new();
    a.dmb_ishst();
    chk(a, q_imm(Op::Dmb, 0b1010));
});

// ==========================================================================================
// exclusive / acquire-release / LSE atomics

/// method(rs, rt, rn) of the LSE family: op<a><l> Rs, Rt, [Rn|SP]
macro_rules! lse {
    ($s:ident, $m:ident, $op:expr, $size:expr, $acq:expr, $rel:expr) => {{
        let (x, qx) = reg($s);
        let (t, qt) = reg($s);
        let (n, qn) = reg($s);
        let mut a = AssemblerArm64::new();
        a.$m(x, t, n);
        chk(a, q_atomic($op, $size, qx, qt, qn, $acq, $rel));
    }};
}
crate::vp_harness!(cas, |s| { lse!(s, cas, Op::Cas, 8, false, false) });
crate::vp_harness!(cas_w, |s| { lse!(s, cas_w, Op::Cas, 4, false, false) });
crate::vp_harness!(casa, |s| { lse!(s, casa, Op::Cas, 8, true, false) });
crate::vp_harness!(casa_w, |s| { lse!(s, casa_w, Op::Cas, 4, true, false) });
crate::vp_harness!(casal, |s| { lse!(s, casal, Op::Cas, 8, true, true) });
crate::vp_harness!(casal_w, |s| { lse!(s, casal_w, Op::Cas, 4, true, true) });
crate::vp_harness!(casl, |s| { lse!(s, casl, Op::Cas, 8, false, true) });
crate::vp_harness!(casl_w, |s| { lse!(s, casl_w, Op::Cas, 4, false, true) });
crate::vp_harness!(ldadd, |s| { lse!(s, ldadd, Op::Ldadd, 8, false, false) });
crate::vp_harness!(ldadd_w, |s| { lse!(s, ldadd_w, Op::Ldadd, 4, false, false) });
crate::vp_harness!(ldadda, |s| { lse!(s, ldadda, Op::Ldadd, 8, true, false) });
crate::vp_harness!(ldadda_w, |s| { lse!(s, ldadda_w, Op::Ldadd, 4, true, false) });
crate::vp_harness!(ldaddal, |s| { lse!(s, ldaddal, Op::Ldadd, 8, true, true) });
crate::vp_harness!(ldaddal_w, |s| { lse!(s, ldaddal_w, Op::Ldadd, 4, true, true) });
crate::vp_harness!(ldaddl, |s| { lse!(s, ldaddl, Op::Ldadd, 8, false, true) });
crate::vp_harness!(ldaddl_w, |s| { lse!(s, ldaddl_w, Op::Ldadd, 4, false, true) });
crate::vp_harness!(swp, |s| { lse!(s, swp, Op::Swp, 8, false, false) });
crate::vp_harness!(swp_w, |s| { lse!(s, swp_w, Op::Swp, 4, false, false) });
crate::vp_harness!(swpa, |s| { lse!(s, swpa, Op::Swp, 8, true, false) });
crate::vp_harness!(swpa_w, |s| { lse!(s, swpa_w, Op::Swp, 4, true, false) });
crate::vp_harness!(swpal, |s| { lse!(s, swpal, Op::Swp, 8, true, true) });
crate::vp_harness!(swpal_w, |s| { lse!(s, swpal_w, Op::Swp, 4, true, true) });
crate::vp_harness!(swpl, |s| { lse!(s, swpl, Op::Swp, 8, false, true) });
crate::vp_harness!(swpl_w, |s| { lse!(s, swpl_w, Op::Swp, 4, false, true) });
// store-exclusive: method(status, src, addr) -> ST(L)XR Ws, Rt, [Rn|SP]
crate::vp_harness!(stxr, |s| { lse!(s, stxr, Op::Stxr, 8, false, false) });
crate::vp_harness!(stxr_w, |s| { lse!(s, stxr_w, Op::Stxr, 4, false, false) });
crate::vp_harness!(stlxr, |s| { lse!(s, stlxr, Op::Stlxr, 8, false, false) });
crate::vp_harness!(stlxr_w, |s| { lse!(s, stlxr_w, Op::Stlxr, 4, false, false) });

/// method(rt, rn): op Rt, [Rn|SP]
macro_rules! ordered {
    ($s:ident, $m:ident, $op:expr, $size:expr) => {{
        let (t, qt) = reg($s);
        let (n, qn) = reg($s);
        let mut a = AssemblerArm64::new();
        a.$m(t, n);
        chk(a, q_atomic($op, $size, R::None, qt, qn, false, false));
    }};
}
crate::vp_harness!(ldar, |s| { ordered!(s, ldar, Op::Ldar, 8) });
crate::vp_harness!(ldarb, |s| { ordered!(s, ldarb, Op::Ldar, 1) });
crate::vp_harness!(ldarh, |s| { ordered!(s, ldarh, Op::Ldar, 2) });
crate::vp_harness!(ldar_w, |s| { ordered!(s, ldar_w, Op::Ldar, 4) });
crate::vp_harness!(ldaxr, |s| { ordered!(s, ldaxr, Op::Ldaxr, 8) });
crate::vp_harness!(ldaxr_w, |s| { ordered!(s, ldaxr_w, Op::Ldaxr, 4) });
crate::vp_harness!(ldxr, |s| { ordered!(s, ldxr, Op::Ldxr, 8) });
crate::vp_harness!(ldxr_w, |s| { ordered!(s, ldxr_w, Op::Ldxr, 4) });
crate::vp_harness!(stlr, |s| { ordered!(s, stlr, Op::Stlr, 8) });
crate::vp_harness!(stlrb, |s| { ordered!(s, stlrb, Op::Stlr, 1) });
crate::vp_harness!(stlrh, |s| { ordered!(s, stlrh, Op::Stlr, 2) });
crate::vp_harness!(stlr_w, |s| { ordered!(s, stlr_w, Op::Stlr, 4) });

// ==========================================================================================
// load/store pair. `imm` operands are byte offsets, `imm7` operands count registers-sized slots
// (the raw field): ldp/ldp_w/stp_post/stp_post_w take bytes; stp/stp_w/stp_pre*/ldp_post* take slots.

macro_rules! pair {
    ($s:ident, $m:ident, $op:expr, $size:expr, $scale:expr) => {{
        let (t, qt) = reg($s);
        let (t2, qt2) = reg($s);
        let (n, qn) = reg($s);
        let imm = $s.i32();
        let mut a = AssemblerArm64::new();
        a.$m(t, t2, n, imm);
        chk(a, q_pair($op, $size, if $size == 8 { 64 } else { 32 }, qt, qt2, qn, (imm as i64) * $scale));
    }};
}
crate::vp_harness!(ldp, |s| { pair!(s, ldp, Op::LdpOff, 8, 1) });
crate::vp_harness!(ldp_w, |s| { pair!(s, ldp_w, Op::LdpOff, 4, 1) });
crate::vp_harness!(ldp_post, |s| { pair!(s, ldp_post, Op::LdpPost, 8, 8) });
crate::vp_harness!(ldp_post_w, |s| { pair!(s, ldp_post_w, Op::LdpPost, 4, 4) });
crate::vp_harness!(stp, |s| { pair!(s, stp, Op::StpOff, 8, 8) });
crate::vp_harness!(stp_w, |s| { pair!(s, stp_w, Op::StpOff, 4, 4) });
crate::vp_harness!(stp_post, |s| { pair!(s, stp_post, Op::StpPost, 8, 1) });
crate::vp_harness!(stp_post_w, |s| { pair!(s, stp_post_w, Op::StpPost, 4, 1) });
crate::vp_harness!(stp_pre, |s| { pair!(s, stp_pre, Op::StpPre, 8, 8) });
crate::vp_harness!(stp_pre_w, |s| { pair!(s, stp_pre_w, Op::StpPre, 4, 4) });

// ==========================================================================================
// load/store register: unsigned scaled offset (operand = byte offset)

macro_rules! mem_uimm {
    ($s:ident, $m:ident, $op:expr, $size:expr, $sf:expr) => {{
        let (t, qt) = reg($s);
        let (n, qn) = reg($s);
        let imm = $s.u32();
        let mut a = AssemblerArm64::new();
        a.$m(t, n, imm);
        chk(a, q_mem($op, $size, $sf, qt, qn, imm as i64));
    }};
}
macro_rules! mem_uimm_v {
    ($s:ident, $m:ident, $op:expr, $size:expr) => {{
        let (t, qt) = neon($s);
        let (n, qn) = reg($s);
        let imm = $s.u32();
        let mut a = AssemblerArm64::new();
        a.$m(t, n, imm);
        chk(a, q_mem($op, $size, 0, qt, qn, imm as i64));
    }};
}
crate::vp_harness!(ldr, |s| {
    let (t, qt) = reg(s); let (n, qn) = reg(s); let off = s.i64();
    let mut a = AssemblerArm64::new();
    a.ldr(t, MemOperand::new(n, off));
    chk(a, q_mem(Op::LdrOff, 8, 64, qt, qn, off));
});
crate::vp_harness!(ldr_imm_x, |s| { mem_uimm!(s, ldr_imm_x, Op::LdrOff, 8, 64) });
crate::vp_harness!(ldr_imm_w, |s| { mem_uimm!(s, ldr_imm_w, Op::LdrOff, 4, 32) });
crate::vp_harness!(ldrh_imm, |s| { mem_uimm!(s, ldrh_imm, Op::LdrOff, 2, 32) });
crate::vp_harness!(ldrb_imm, |s| { mem_uimm!(s, ldrb_imm, Op::LdrOff, 1, 32) });
crate::vp_harness!(ldr_imm_d, |s| { mem_uimm_v!(s, ldr_imm_d, Op::LdrOff, 8) });
crate::vp_harness!(ldr_imm_s, |s| { mem_uimm_v!(s, ldr_imm_s, Op::LdrOff, 4) });
crate::vp_harness!(str_imm, |s| { mem_uimm!(s, str_imm, Op::StrOff, 8, 64) });
crate::vp_harness!(str_imm_x, |s| { mem_uimm!(s, str_imm_x, Op::StrOff, 8, 64) });
crate::vp_harness!(str_imm_w, |s| { mem_uimm!(s, str_imm_w, Op::StrOff, 4, 32) });
crate::vp_harness!(strh_imm, |s| { mem_uimm!(s, strh_imm, Op::StrOff, 2, 32) });
crate::vp_harness!(strb_imm, |s| { mem_uimm!(s, strb_imm, Op::StrOff, 1, 32) });
crate::vp_harness!(str_imm_d, |s| { mem_uimm_v!(s, str_imm_d, Op::StrOff, 8) });
crate::vp_harness!(str_imm_s, |s| { mem_uimm_v!(s, str_imm_s, Op::StrOff, 4) });

// unscaled signed offset
macro_rules! mem_simm {
    ($s:ident, $m:ident, $op:expr, $size:expr, $sf:expr) => {{
        let (t, qt) = reg($s);
        let (n, qn) = reg($s);
        let imm = $s.i32();
        let mut a = AssemblerArm64::new();
        a.$m(t, n, imm);
        chk(a, q_mem($op, $size, $sf, qt, qn, imm as i64));
    }};
}
macro_rules! mem_simm_v {
    ($s:ident, $m:ident, $op:expr, $size:expr) => {{
        let (t, qt) = neon($s);
        let (n, qn) = reg($s);
        let imm = $s.i32();
        let mut a = AssemblerArm64::new();
        a.$m(t, n, imm);
        chk(a, q_mem($op, $size, 0, qt, qn, imm as i64));
    }};
}
crate::vp_harness!(ldur, |s| { mem_simm!(s, ldur, Op::Ldur, 8, 64) });
crate::vp_harness!(ldur_w, |s| { mem_simm!(s, ldur_w, Op::Ldur, 4, 32) });
crate::vp_harness!(ldurh, |s| { mem_simm!(s, ldurh, Op::Ldur, 2, 32) });
crate::vp_harness!(ldurb, |s| { mem_simm!(s, ldurb, Op::Ldur, 1, 32) });
crate::vp_harness!(ldur_d, |s| { mem_simm_v!(s, ldur_d, Op::Ldur, 8) });
crate::vp_harness!(ldur_s, |s| { mem_simm_v!(s, ldur_s, Op::Ldur, 4) });
crate::vp_harness!(stur, |s| { mem_simm!(s, stur, Op::Stur, 8, 64) });
crate::vp_harness!(stur_w, |s| { mem_simm!(s, stur_w, Op::Stur, 4, 32) });
crate::vp_harness!(sturh, |s| { mem_simm!(s, sturh, Op::Stur, 2, 32) });
crate::vp_harness!(sturb, |s| { mem_simm!(s, sturb, Op::Stur, 1, 32) });
crate::vp_harness!(stur_d, |s| { mem_simm_v!(s, stur_d, Op::Stur, 8) });
crate::vp_harness!(stur_s, |s| { mem_simm_v!(s, stur_s, Op::Stur, 4) });

// register offset: method(rt, rn, rm, extend, amount) -> op Rt, [Rn|SP, Rm, <extend> #amount]
macro_rules! mem_reg {
    ($s:ident, $m:ident, $op:expr, $size:expr, $sf:expr) => {{
        let (t, qt) = reg($s);
        let (n, qn) = reg($s);
        let (m, qm) = reg($s);
        let (ex, _, qe) = extend($s, 64);
        let amount = $s.u32();
        let mut a = AssemblerArm64::new();
        a.$m(t, n, m, ex, amount);
        let mut want = q_memreg($op, $size, $sf, qt, qn, qm, qe, 0);
        want.imm2 = amount as i64;
        chk(a, want);
    }};
}
macro_rules! mem_reg_v {
    ($s:ident, $m:ident, $op:expr, $size:expr) => {{
        let (t, qt) = neon($s);
        let (n, qn) = reg($s);
        let (m, qm) = reg($s);
        let (ex, _, qe) = extend($s, 64);
        let amount = $s.u32();
        let mut a = AssemblerArm64::new();
        a.$m(t, n, m, ex, amount);
        let mut want = q_memreg($op, $size, 0, qt, qn, qm, qe, 0);
        want.imm2 = amount as i64;
        chk(a, want);
    }};
}
crate::vp_harness!(ldr_reg, |s| { mem_reg!(s, ldr_reg, Op::LdrReg, 8, 64) });
crate::vp_harness!(ldr_reg_w, |s| { mem_reg!(s, ldr_reg_w, Op::LdrReg, 4, 32) });
crate::vp_harness!(ldrh_reg, |s| { mem_reg!(s, ldrh_reg, Op::LdrReg, 2, 32) });
crate::vp_harness!(ldrb_reg, |s| { mem_reg!(s, ldrb_reg, Op::LdrReg, 1, 32) });
crate::vp_harness!(ldr_reg_d, |s| { mem_reg_v!(s, ldr_reg_d, Op::LdrReg, 8) });
crate::vp_harness!(ldr_reg_s, |s| { mem_reg_v!(s, ldr_reg_s, Op::LdrReg, 4) });
crate::vp_harness!(str_reg, |s| { mem_reg!(s, str_reg, Op::StrReg, 8, 64) });
crate::vp_harness!(str_reg_w, |s| { mem_reg!(s, str_reg_w, Op::StrReg, 4, 32) });
crate::vp_harness!(strh_reg, |s| { mem_reg!(s, strh_reg, Op::StrReg, 2, 32) });
crate::vp_harness!(strb_reg, |s| { mem_reg!(s, strb_reg, Op::StrReg, 1, 32) });
crate::vp_harness!(str_reg_d, |s| { mem_reg_v!(s, str_reg_d, Op::StrReg, 8) });
crate::vp_harness!(str_reg_s, |s| { mem_reg_v!(s, str_reg_s, Op::StrReg, 4) });

// ==========================================================================================
// scalar floating point

macro_rules! fp3 {
    ($s:ident, $m:ident, $op:expr, $size:expr) => {{
        let (d, qd) = neon($s);
        let (n, qn) = neon($s);
        let (m, qm) = neon($s);
        let mut a = AssemblerArm64::new();
        a.$m(d, n, m);
        chk(a, q_fp($op, $size, qd, qn, qm));
    }};
}
macro_rules! fp2 {
    ($s:ident, $m:ident, $op:expr, $size:expr) => {{
        let (d, qd) = neon($s);
        let (n, qn) = neon($s);
        let mut a = AssemblerArm64::new();
        a.$m(d, n);
        chk(a, q_fp($op, $size, qd, qn, R::None));
    }};
}
macro_rules! fpcmp {
    ($s:ident, $m:ident, $op:expr, $size:expr) => {{
        let (n, qn) = neon($s);
        let (m, qm) = neon($s);
        let mut a = AssemblerArm64::new();
        a.$m(n, m);
        chk(a, q_fp($op, $size, R::None, qn, qm));
    }};
}
crate::vp_harness!(fadd_s, |s| { fp3!(s, fadd_s, Op::Fadd, 4) });
crate::vp_harness!(fadd_d, |s| { fp3!(s, fadd_d, Op::Fadd, 8) });
crate::vp_harness!(fsub_s, |s| { fp3!(s, fsub_s, Op::Fsub, 4) });
crate::vp_harness!(fsub_d, |s| { fp3!(s, fsub_d, Op::Fsub, 8) });
crate::vp_harness!(fmul_s, |s| { fp3!(s, fmul_s, Op::Fmul, 4) });
crate::vp_harness!(fmul_d, |s| { fp3!(s, fmul_d, Op::Fmul, 8) });
crate::vp_harness!(fdiv_s, |s| { fp3!(s, fdiv_s, Op::Fdiv, 4) });
crate::vp_harness!(fdiv_d, |s| { fp3!(s, fdiv_d, Op::Fdiv, 8) });
crate::vp_harness!(fcmp_s, |s| { fpcmp!(s, fcmp_s, Op::Fcmp, 4) });
crate::vp_harness!(fcmp_d, |s| { fpcmp!(s, fcmp_d, Op::Fcmp, 8) });
crate::vp_harness!(fcmpe_s, |s| { fpcmp!(s, fcmpe_s, Op::Fcmpe, 4) });
crate::vp_harness!(fcmpe_d, |s| { fpcmp!(s, fcmpe_d, Op::Fcmpe, 8) });
crate::vp_harness!(fmov_s, |s| { fp2!(s, fmov_s, Op::Fmov, 4) });
crate::vp_harness!(fmov_d, |s| { fp2!(s, fmov_d, Op::Fmov, 8) });
crate::vp_harness!(fabs_s, |s| { fp2!(s, fabs_s, Op::Fabs, 4) });
crate::vp_harness!(fabs_d, |s| { fp2!(s, fabs_d, Op::Fabs, 8) });
crate::vp_harness!(fneg_s, |s| { fp2!(s, fneg_s, Op::Fneg, 4) });
crate::vp_harness!(fneg_d, |s| { fp2!(s, fneg_d, Op::Fneg, 8) });
crate::vp_harness!(fsqrt_s, |s| { fp2!(s, fsqrt_s, Op::Fsqrt, 4) });
crate::vp_harness!(fsqrt_d, |s| { fp2!(s, fsqrt_d, Op::Fsqrt, 8) });
crate::vp_harness!(frintn_s, |s| { fp2!(s, frintn_s, Op::Frintn, 4) });
crate::vp_harness!(frintn_d, |s| { fp2!(s, frintn_d, Op::Frintn, 8) });
crate::vp_harness!(frintp_s, |s| { fp2!(s, frintp_s, Op::Frintp, 4) });
crate::vp_harness!(frintp_d, |s| { fp2!(s, frintp_d, Op::Frintp, 8) });
crate::vp_harness!(frintm_s, |s| { fp2!(s, frintm_s, Op::Frintm, 4) });
crate::vp_harness!(frintm_d, |s| { fp2!(s, frintm_d, Op::Frintm, 8) });
crate::vp_harness!(frintz_s, |s| { fp2!(s, frintz_s, Op::Frintz, 4) });
crate::vp_harness!(frintz_d, |s| { fp2!(s, frintz_d, Op::Frintz, 8) });
crate::vp_harness!(frinta_s, |s| { fp2!(s, frinta_s, Op::Frinta, 4) });
crate::vp_harness!(frinta_d, |s| { fp2!(s, frinta_d, Op::Frinta, 8) });
// fcvt_<dst><src>: fcvt_ds = FCVT Dd, Sn (single -> double); fcvt_sd = FCVT Sd, Dn
crate::vp_harness!(fcvt_ds, |s| {
    let (d, qd) = neon(s); let (n, qn) = neon(s);
    let mut a = AssemblerArm64::new();
    a.fcvt_ds(d, n);
    let mut want = q_fp(Op::Fcvt, 4, qd, qn, R::None);
    want.imm2 = 8;
    chk(a, want);
});
crate::vp_harness!(fcvt_sd, |s| {
    let (d, qd) = neon(s); let (n, qn) = neon(s);
    let mut a = AssemblerArm64::new();
    a.fcvt_sd(d, n);
    let mut want = q_fp(Op::Fcvt, 8, qd, qn, R::None);
    want.imm2 = 4;
    chk(a, want);
});
/// method(rd: gpr, rn: fpr)
macro_rules! fp_to_int {
    ($s:ident, $m:ident, $op:expr, $sf:expr, $size:expr) => {{
        let (d, qd) = reg($s);
        let (n, qn) = neon($s);
        let mut a = AssemblerArm64::new();
        a.$m(d, n);
        chk(a, q_fpint($op, $sf, $size, qd, qn));
    }};
}
/// method(rd: fpr, rn: gpr)
macro_rules! int_to_fp {
    ($s:ident, $m:ident, $op:expr, $sf:expr, $size:expr) => {{
        let (d, qd) = neon($s);
        let (n, qn) = reg($s);
        let mut a = AssemblerArm64::new();
        a.$m(d, n);
        chk(a, q_fpint($op, $sf, $size, qd, qn));
    }};
}
crate::vp_harness!(fcvtzs_d, |s| { fp_to_int!(s, fcvtzs_d, Op::Fcvtzs, 64, 8) });
crate::vp_harness!(fcvtzs_s, |s| { fp_to_int!(s, fcvtzs_s, Op::Fcvtzs, 64, 4) });
crate::vp_harness!(fcvtzs_wd, |s| { fp_to_int!(s, fcvtzs_wd, Op::Fcvtzs, 32, 8) });
crate::vp_harness!(fcvtzs_ws, |s| { fp_to_int!(s, fcvtzs_ws, Op::Fcvtzs, 32, 4) });
crate::vp_harness!(fmov_sf_d, |s| { fp_to_int!(s, fmov_sf_d, Op::FmovToGpr, 64, 8) });
crate::vp_harness!(fmov_sf_s, |s| { fp_to_int!(s, fmov_sf_s, Op::FmovToGpr, 32, 4) });
crate::vp_harness!(fmov_fs_d, |s| { int_to_fp!(s, fmov_fs_d, Op::FmovToFpr, 64, 8) });
crate::vp_harness!(fmov_fs_s, |s| { int_to_fp!(s, fmov_fs_s, Op::FmovToFpr, 32, 4) });
crate::vp_harness!(scvtf_si_dw, |s| { int_to_fp!(s, scvtf_si_dw, Op::Scvtf, 32, 8) });
crate::vp_harness!(scvtf_si_dx, |s| { int_to_fp!(s, scvtf_si_dx, Op::Scvtf, 64, 8) });
crate::vp_harness!(scvtf_si_sw, |s| { int_to_fp!(s, scvtf_si_sw, Op::Scvtf, 32, 4) });
crate::vp_harness!(scvtf_si_sx, |s| { int_to_fp!(s, scvtf_si_sx, Op::Scvtf, 64, 4) });

// ==========================================================================================
// Advanced SIMD: method(q, size, rd, rn) with the raw Q and size fields as operands

macro_rules! simd2 {
    ($s:ident, $m:ident, $op:expr) => {{
        let q = $s.u32();
        let size = $s.u32();
        let (d, qd) = neon($s);
        let (n, qn) = neon($s);
        let mut a = AssemblerArm64::new();
        a.$m(q, size, d, n);
        let mut want = q_fp($op, 0, qd, qn, R::None);
        // Q is one bit, size two bits: anything else must be refused
        want.opt = if q < 2 { q as u8 } else { 255 };
        want.size = if size < 4 { 1u8 << size } else { 255 };
        chk(a, want);
    }};
}
crate::vp_harness!(cnt, |s| { simd2!(s, cnt, Op::Cnt) });
crate::vp_harness!(addv, |s| { simd2!(s, addv, Op::Addv) });

// ==========================================================================================
// label forms. Four rows per method:
//   __bwd    label bound, then k (0..=4) NOPs, then the branch             (offset -4k)
//   __fwd    branch, then k (0..=4) NOPs, then the label is bound         (offset +4(k+1) / +4(k+2))
//   __far    branch at 0 to an unbound label that is later bound at an arbitrary byte position p
//            (the position is moved with set_position instead of emitting p bytes of code)
//   __bound  label bound at an arbitrary position p before the branch is emitted at 0
// The decoded branch must land on the bound position; the compare/test-and-branch forms may
// instead emit the inverted branch over an unconditional B (checked by `lands_*`).

/// four NOPs with `l` bound so that exactly k (0..=4) of them follow the label. The code length stays
/// concrete (a symbolic number of emitted words makes CBMC run out of memory) and the label is bound at one
/// program point (a symbolic bound/unbound state drags the whole deferred-jump machinery into the bound
/// path): the NOPs are emitted first and the label is then bound at byte position 4*(4-k) by moving the
/// position there and back, which is all bind_label looks at.
pub fn pad_bwd(a: &mut AssemblerArm64, l: Label, k: u8) {
    a.nop();
    a.nop();
    a.nop();
    a.nop();
    a.set_position(4 * (4 - k as usize));
    a.bind_label(l);
    a.set_position_end();
}
/// four NOPs with `l` bound after the first k (0..=4) of them
pub fn pad_fwd(a: &mut AssemblerArm64, l: Label, k: u8) {
    if k == 0 { a.bind_label(l); }
    a.nop();
    if k == 1 { a.bind_label(l); }
    a.nop();
    if k == 2 { a.bind_label(l); }
    a.nop();
    if k == 3 { a.bind_label(l); }
    a.nop();
    if k == 4 { a.bind_label(l); }
}
#[cfg(not(kani))]
pub fn words_note(code: &[u8]) -> String {
    let n = code.len() / 4;
    let ws: Vec<String> = (0..n).map(|k| format!("{:08x}", word_at(code, k))).collect();
    let asms: Vec<String> = (0..n).map(|k| render(&decode(word_at(code, k)))).collect();
    format!("w={} asm=\"{}\"", ws.join(","), asms.join("; "))
}
/// label bound at byte position `p` before anything is emitted; position back to 0
pub fn label_at(a: &mut AssemblerArm64, p: u32) -> Label {
    a.set_position(p as usize);
    let l = a.create_and_bind_label();
    a.set_position(0);
    l
}
/// bind `l` at byte position `p`, then restore the position to the end of the code
pub fn bind_at(a: &mut AssemblerArm64, l: Label, p: u32) {
    a.set_position(p as usize);
    a.bind_label(l);
    a.set_position_end();
}
/// a far position: any u32 below 2 GiB (the assembler casts offsets to i32 everywhere; a code
/// buffer of 2 GiB or more is outside its type invariant)
pub fn far_pos(s: &mut Src) -> u32 {
    let p = s.u32();
    s.assume(p < 0x8000_0000);
    p
}
/// one-word branch at word index `at` of `code` (which has `total` words) must equal `want`
pub fn chk_branch_at(code: &[u8], total: usize, at: usize, want: Insn) {
    crate::vp_check!(code.len() == 4 * total, "number of emitted instruction words");
    let got = decode(word_at(code, at));
    crate::vp_note!("{} got {:?} want {:?}", words_note(code), got, want);
    crate::vp_check!(got == want, "requested branch landing on the label");
}
/// CBZ/CBNZ/TBZ/TBNZ pair at word `at`: either [requested branch to `dist`, NOP] or
/// [inverted branch over the next word, B to `dist`] (dist in bytes from the first word)
pub fn lands_pair(code: &[u8], at: usize, want: Insn, dist: i64) -> bool {
    let w0 = decode(word_at(code, at));
    let w1 = decode(word_at(code, at + 1));
    let mut direct = want;
    direct.imm = dist;
    let mut inv = want;
    inv.op = match want.op {
        Op::Cbz => Op::Cbnz,
        Op::Cbnz => Op::Cbz,
        Op::Tbz => Op::Tbnz,
        _ => Op::Tbz,
    };
    inv.imm = 8;
    (w0 == direct && w1 == q_imm(Op::Hint, 0)) || (w0 == inv && w1.op == Op::B && 4 + w1.imm == dist)
}

// ---- b
crate::vp_harness!(b__bwd, unwind = 4, |s| {
    let k = s.below(5);
    let mut a = AssemblerArm64::new();
    let l = a.create_label();
    pad_bwd(&mut a, l, k);
    a.b(l);
    let code = code_of(a);
    chk_branch_at(&code, 5, 4, q_imm(Op::B, -4 * (k as i64)));
});
crate::vp_harness!(b__fwd, unwind = 4, |s| {
    let k = s.below(5);
    let mut a = AssemblerArm64::new();
    let l = a.create_label();
    a.b(l);
    pad_fwd(&mut a, l, k);
    let code = code_of(a);
    chk_branch_at(&code, 5, 0, q_imm(Op::B, 4 * (k as i64 + 1)));
});
crate::vp_harness!(b__far, unwind = 4, |s| {
    let p = far_pos(s);
    let mut a = AssemblerArm64::new();
    let l = a.create_label();
    a.b(l);
    bind_at(&mut a, l, p);
    let code = code_of(a);
    chk_branch_at(&code, 1, 0, q_imm(Op::B, p as i64));
});
crate::vp_harness!(b__bound, unwind = 4, |s| {
    let p = far_pos(s);
    let mut a = AssemblerArm64::new();
    let l = label_at(&mut a, p);
    a.b(l);
    let code = code_of(a);
    chk_branch_at(&code, 1, 0, q_imm(Op::B, p as i64));
});

// ---- bc
fn q_bcond(c: u8, off: i64) -> Insn {
    let mut i = q_imm(Op::BCond, off);
    i.cond = c;
    i
}
crate::vp_harness!(bc__bwd, unwind = 4, |s| {
    let k = s.below(5); let (c, qc) = cond(s);
    let mut a = AssemblerArm64::new();
    let l = a.create_label();
    pad_bwd(&mut a, l, k);
    a.bc(c, l);
    let code = code_of(a);
    chk_branch_at(&code, 5, 4, q_bcond(qc, -4 * (k as i64)));
});
crate::vp_harness!(bc__fwd, unwind = 4, |s| {
    let k = s.below(5); let (c, qc) = cond(s);
    let mut a = AssemblerArm64::new();
    let l = a.create_label();
    a.bc(c, l);
    pad_fwd(&mut a, l, k);
    let code = code_of(a);
    chk_branch_at(&code, 5, 0, q_bcond(qc, 4 * (k as i64 + 1)));
});
crate::vp_harness!(bc__far, unwind = 4, |s| {
    let p = far_pos(s); let (c, qc) = cond(s);
    let mut a = AssemblerArm64::new();
    let l = a.create_label();
    a.bc(c, l);
    bind_at(&mut a, l, p);
    let code = code_of(a);
    chk_branch_at(&code, 1, 0, q_bcond(qc, p as i64));
});
crate::vp_harness!(bc__bound, unwind = 4, |s| {
    let p = far_pos(s); let (c, qc) = cond(s);
    let mut a = AssemblerArm64::new();
    let l = label_at(&mut a, p);
    a.bc(c, l);
    let code = code_of(a);
    chk_branch_at(&code, 1, 0, q_bcond(qc, p as i64));
});

// ---- adr_label (always resolved at finalize)
fn q_adr(rd: R, off: i64) -> Insn {
    let mut i = q_imm(Op::Adr, off);
    i.rd = rd;
    i
}
crate::vp_harness!(adr_label__bwd, unwind = 4, |s| {
    let k = s.below(5); let (d, qd) = reg(s);
    let mut a = AssemblerArm64::new();
    let l = a.create_label();
    pad_bwd(&mut a, l, k);
    a.adr_label(d, l);
    let code = code_of(a);
    chk_branch_at(&code, 5, 4, q_adr(qd, -4 * (k as i64)));
});
crate::vp_harness!(adr_label__fwd, unwind = 4, |s| {
    let k = s.below(5); let (d, qd) = reg(s);
    let mut a = AssemblerArm64::new();
    let l = a.create_label();
    a.adr_label(d, l);
    pad_fwd(&mut a, l, k);
    let code = code_of(a);
    chk_branch_at(&code, 5, 0, q_adr(qd, 4 * (k as i64 + 1)));
});
crate::vp_harness!(adr_label__far, unwind = 4, |s| {
    let p = far_pos(s); let (d, qd) = reg(s);
    let mut a = AssemblerArm64::new();
    let l = a.create_label();
    a.adr_label(d, l);
    bind_at(&mut a, l, p);
    let code = code_of(a);
    chk_branch_at(&code, 1, 0, q_adr(qd, p as i64));
});

// ---- cbz / cbnz (64- and 32-bit)
fn q_cb(op: Op, sf: u8, rt: R) -> Insn {
    let mut i = Insn::new(op);
    i.sf = sf;
    i.rd = rt;
    i
}
/// bound label: one word, or the inverted pair when out of range
pub fn chk_cb_bound(code: &[u8], at: usize, want: Insn, dist: i64) {
    let n = code.len() / 4;
    crate::vp_note!("{} want {:?} dist {}", words_note(code), want, dist);
    let mut direct = want;
    direct.imm = dist;
    let one = code.len() == 4 * (at + 1) && decode(word_at(code, at)) == direct;
    let two = code.len() == 4 * (at + 2) && n >= 2 && lands_pair(code, at, want, dist) && decode(word_at(code, at + 1)).op == Op::B;
    crate::vp_check!(one || two, "branch or inverted pair lands on the label");
}
/// label unbound at the call: two words reserved
pub fn chk_cb_unbound(code: &[u8], total: usize, want: Insn, dist: i64) {
    crate::vp_note!("{} want {:?} dist {}", words_note(code), want, dist);
    crate::vp_check!(code.len() == 4 * total, "number of emitted instruction words");
    crate::vp_check!(lands_pair(code, 0, want, dist), "branch pair lands on the label");
}
macro_rules! cb_rows_bwd {
    ($s:ident, $m:ident, $op:expr, $sf:expr) => {{
        let k = $s.below(5);
        let (t, qt) = reg($s);
        let mut a = AssemblerArm64::new();
        let l = a.create_label();
        pad_bwd(&mut a, l, k);
        a.$m(t, l);
        let code = code_of(a);
        chk_cb_bound(&code, 4, q_cb($op, $sf, qt), -4 * (k as i64));
    }};
}
macro_rules! cb_rows_fwd {
    ($s:ident, $m:ident, $op:expr, $sf:expr) => {{
        let k = $s.below(5);
        let (t, qt) = reg($s);
        let mut a = AssemblerArm64::new();
        let l = a.create_label();
        a.$m(t, l);
        pad_fwd(&mut a, l, k);
        let code = code_of(a);
        chk_cb_unbound(&code, 6, q_cb($op, $sf, qt), 4 * (k as i64 + 2));
    }};
}
macro_rules! cb_rows_far {
    ($s:ident, $m:ident, $op:expr, $sf:expr) => {{
        let p = far_pos($s);
        let (t, qt) = reg($s);
        let mut a = AssemblerArm64::new();
        let l = a.create_label();
        a.$m(t, l);
        bind_at(&mut a, l, p);
        let code = code_of(a);
        chk_cb_unbound(&code, 2, q_cb($op, $sf, qt), p as i64);
    }};
}
macro_rules! cb_rows_bound {
    ($s:ident, $m:ident, $op:expr, $sf:expr) => {{
        let p = far_pos($s);
        let (t, qt) = reg($s);
        let mut a = AssemblerArm64::new();
        let l = label_at(&mut a, p);
        a.$m(t, l);
        let code = code_of(a);
        chk_cb_bound(&code, 0, q_cb($op, $sf, qt), p as i64);
    }};
}
crate::vp_harness!(cbz__bwd, unwind = 4, |s| { cb_rows_bwd!(s, cbz, Op::Cbz, 64) });
crate::vp_harness!(cbz__fwd, unwind = 4, |s| { cb_rows_fwd!(s, cbz, Op::Cbz, 64) });
crate::vp_harness!(cbz__far, unwind = 4, |s| { cb_rows_far!(s, cbz, Op::Cbz, 64) });
crate::vp_harness!(cbz__bound, unwind = 4, |s| { cb_rows_bound!(s, cbz, Op::Cbz, 64) });
crate::vp_harness!(cbz_w__bwd, unwind = 4, |s| { cb_rows_bwd!(s, cbz_w, Op::Cbz, 32) });
crate::vp_harness!(cbz_w__fwd, unwind = 4, |s| { cb_rows_fwd!(s, cbz_w, Op::Cbz, 32) });
crate::vp_harness!(cbz_w__far, unwind = 4, |s| { cb_rows_far!(s, cbz_w, Op::Cbz, 32) });
crate::vp_harness!(cbz_w__bound, unwind = 4, |s| { cb_rows_bound!(s, cbz_w, Op::Cbz, 32) });
crate::vp_harness!(cbnz__bwd, unwind = 4, |s| { cb_rows_bwd!(s, cbnz, Op::Cbnz, 64) });
crate::vp_harness!(cbnz__fwd, unwind = 4, |s| { cb_rows_fwd!(s, cbnz, Op::Cbnz, 64) });
crate::vp_harness!(cbnz__far, unwind = 4, |s| { cb_rows_far!(s, cbnz, Op::Cbnz, 64) });
crate::vp_harness!(cbnz__bound, unwind = 4, |s| { cb_rows_bound!(s, cbnz, Op::Cbnz, 64) });
crate::vp_harness!(cbnz_w__bwd, unwind = 4, |s| { cb_rows_bwd!(s, cbnz_w, Op::Cbnz, 32) });
crate::vp_harness!(cbnz_w__fwd, unwind = 4, |s| { cb_rows_fwd!(s, cbnz_w, Op::Cbnz, 32) });
crate::vp_harness!(cbnz_w__far, unwind = 4, |s| { cb_rows_far!(s, cbnz_w, Op::Cbnz, 32) });
crate::vp_harness!(cbnz_w__bound, unwind = 4, |s| { cb_rows_bound!(s, cbnz_w, Op::Cbnz, 32) });

// ---- tbz / tbnz: method(rt, bit, label). Bit numbers 0..63; the register is named W for bit < 32
fn q_tb(op: Op, rt: R, bit: u32) -> Insn {
    let mut i = Insn::new(op);
    i.sf = if bit >= 32 { 64 } else { 32 };
    i.rd = rt;
    i.imm2 = bit as i64; // bit > 63 does not exist: never equal to a decoded 6-bit field
    i
}
macro_rules! tb_rows_bwd {
    ($s:ident, $m:ident, $op:expr) => {{
        let k = $s.below(5);
        let (t, qt) = reg($s);
        let bit = $s.u32();
        let mut a = AssemblerArm64::new();
        let l = a.create_label();
        pad_bwd(&mut a, l, k);
        a.$m(t, bit, l);
        let code = code_of(a);
        chk_cb_bound(&code, 4, q_tb($op, qt, bit), -4 * (k as i64));
    }};
}
macro_rules! tb_rows_fwd {
    ($s:ident, $m:ident, $op:expr) => {{
        let k = $s.below(5);
        let (t, qt) = reg($s);
        let bit = $s.u32();
        let mut a = AssemblerArm64::new();
        let l = a.create_label();
        a.$m(t, bit, l);
        pad_fwd(&mut a, l, k);
        let code = code_of(a);
        chk_cb_unbound(&code, 6, q_tb($op, qt, bit), 4 * (k as i64 + 2));
    }};
}
macro_rules! tb_rows_far {
    ($s:ident, $m:ident, $op:expr) => {{
        let p = far_pos($s);
        let (t, qt) = reg($s);
        let bit = $s.u32();
        let mut a = AssemblerArm64::new();
        let l = a.create_label();
        a.$m(t, bit, l);
        bind_at(&mut a, l, p);
        let code = code_of(a);
        chk_cb_unbound(&code, 2, q_tb($op, qt, bit), p as i64);
    }};
}
macro_rules! tb_rows_bound {
    ($s:ident, $m:ident, $op:expr) => {{
        let p = far_pos($s);
        let (t, qt) = reg($s);
        let bit = $s.u32();
        let mut a = AssemblerArm64::new();
        let l = label_at(&mut a, p);
        a.$m(t, bit, l);
        let code = code_of(a);
        chk_cb_bound(&code, 0, q_tb($op, qt, bit), p as i64);
    }};
}
crate::vp_harness!(tbz__bwd, unwind = 4, |s| { tb_rows_bwd!(s, tbz, Op::Tbz) });
crate::vp_harness!(tbz__fwd, unwind = 4, |s| { tb_rows_fwd!(s, tbz, Op::Tbz) });
crate::vp_harness!(tbz__far, unwind = 4, |s| { tb_rows_far!(s, tbz, Op::Tbz) });
crate::vp_harness!(tbz__bound, unwind = 4, |s| { tb_rows_bound!(s, tbz, Op::Tbz) });
crate::vp_harness!(tbnz__bwd, unwind = 4, |s| { tb_rows_bwd!(s, tbnz, Op::Tbnz) });
crate::vp_harness!(tbnz__fwd, unwind = 4, |s| { tb_rows_fwd!(s, tbnz, Op::Tbnz) });
crate::vp_harness!(tbnz__far, unwind = 4, |s| { tb_rows_far!(s, tbnz, Op::Tbnz) });
crate::vp_harness!(tbnz__bound, unwind = 4, |s| { tb_rows_bound!(s, tbnz, Op::Tbnz) });

// ==========================================================================================
// multi-instruction helpers: constant materialisation and the ldr_mem_* / str_mem_* forms

/// one MOVK step on `rd`
fn movk_step(code: &[u8], k: usize, rd: R, sf: u8, v: u64) -> Option<u64> {
    let i = decode(word_at(code, k));
    if i.op != Op::Movk || i.sf != sf || i.rd != rd || i.imm2 < 0 || i.imm2 > 48 {
        return None;
    }
    let sh = i.imm2 as u32;
    Some((v & !(0xffffu64 << sh)) | ((i.imm as u64) << sh))
}
/// value left in `rd` (width sf) by the first n (1..=4) words if they are MOVZ|MOVN|ORR-imm followed by
/// MOVKs, all on `rd`; None if the words are anything else. Loop-free (hand-unrolled).
pub fn eval_mov_seq(code: &[u8], n: usize, rd: R, sf: u8) -> Option<u64> {
    if n == 0 || n > 4 || code.len() < 4 * n {
        return None;
    }
    let mask = if sf == 64 { u64::MAX } else { 0xffff_ffffu64 };
    let i0 = decode(word_at(code, 0));
    if i0.sf != sf || i0.rd != rd || i0.imm2 < 0 || i0.imm2 > 48 {
        return None;
    }
    let sh = i0.imm2 as u32;
    let mut v = match i0.op {
        Op::Movz => ((i0.imm as u64) << sh) & mask,
        Op::Movn => !((i0.imm as u64) << sh) & mask,
        Op::OrrImm => {
            if i0.rn != R::Zr {
                return None;
            }
            i0.imm as u64
        }
        _ => return None,
    };
    if n > 1 {
        v = match movk_step(code, 1, rd, sf, v) { Some(x) => x, None => return None };
    }
    if n > 2 {
        v = match movk_step(code, 2, rd, sf, v) { Some(x) => x, None => return None };
    }
    if n > 3 {
        v = match movk_step(code, 3, rd, sf, v) { Some(x) => x, None => return None };
    }
    Some(v & mask)
}

/// An assembler whose buffer already holds five NOPs, positioned at 0: what is emitted next overwrites
/// them in place. The buffer length then stays concrete -- a Vec growing by a symbolic number of words
/// makes CBMC run out of memory -- and the emitted words are the same (these helpers do not look at the
/// position). `emitted` returns the buffer and the number of words written.
pub fn prefilled() -> AssemblerArm64 {
    let mut a = AssemblerArm64::new();
    a.nop();
    a.nop();
    a.nop();
    a.nop();
    a.nop();
    a.set_position(0);
    a
}
pub fn emitted(a: AssemblerArm64) -> (Vec<u8>, usize) {
    let pos = a.position();
    let code = code_of(a);
    crate::vp_check!(pos % 4 == 0 && pos <= code.len(), "whole instruction words emitted");
    let n = if pos <= code.len() { pos / 4 } else { 0 };
    (code, n)
}

crate::vp_harness!(mov_imm, unwind = 66, |s| {
    let (d, qd) = reg(s); let imm = s.i64();
    let mut a = prefilled();
    a.mov_imm(d, imm);
    let (code, n) = emitted(a);
    let v = eval_mov_seq(&code, n, qd, 64);
    crate::vp_note!("{} value {:x?} want {:x}", words_note(&code[..4 * n]), v, imm as u64);
    crate::vp_check!(n >= 1 && n <= 4, "one to four instruction words");
    crate::vp_check!(qd != R::Sp, "a wide move cannot target SP");
    crate::vp_check!(v == Some(imm as u64), "sequence leaves the requested constant in rd");
});
crate::vp_harness!(mov_imm_w, unwind = 66, |s| {
    let (d, qd) = reg(s); let imm = s.i32();
    let mut a = prefilled();
    a.mov_imm_w(d, imm);
    let (code, n) = emitted(a);
    let v = eval_mov_seq(&code, n, qd, 32);
    crate::vp_note!("{} value {:x?} want {:x}", words_note(&code[..4 * n]), v, imm as u32);
    crate::vp_check!(n >= 1 && n <= 2, "one or two instruction words");
    crate::vp_check!(qd != R::Sp, "a wide move cannot target SP");
    crate::vp_check!(v == Some(imm as u32 as u64), "sequence leaves the requested constant in rd");
});

/// ldr_mem_* / str_mem_*(rt, [base, #offset], scratch): access `size` bytes at base + offset.
/// Either one LDR/STR (scaled unsigned offset) or LDUR/STUR (unscaled) with exactly that offset, or the
/// offset materialised in `scratch` followed by the register-offset form [base, scratch].
pub fn chk_mem_helper(code: &[u8], n: usize, load: bool, size: u8, sf: u8, rt: R, base: R, off: i64, scratch: R) {
    crate::vp_check!(n >= 1 && n <= 5 && code.len() >= 4 * n, "one to five instruction words");
    if n == 0 || n > 5 || code.len() < 4 * n {
        return;
    }
    crate::vp_note!("{} off {} scratch {:?}", words_note(&code[..4 * n]), off, scratch);
    let last = decode(word_at(code, n - 1));
    let ok = if n == 1 {
        let scaled = q_mem(if load { Op::LdrOff } else { Op::StrOff }, size, sf, rt, base, off);
        let unscaled = q_mem(if load { Op::Ldur } else { Op::Stur }, size, sf, rt, base, off);
        last == scaled || last == unscaled
    } else {
        let v = eval_mov_seq(code, n - 1, scratch, 64);
        let want = q_memreg(if load { Op::LdrReg } else { Op::StrReg }, size, sf, rt, base, scratch, 3, 0);
        last == want && v == Some(off as u64)
    };
    crate::vp_check!(ok, "sequence accesses base+offset as requested");
}
/// a scratch register: a general register x0..x30 distinct from the base (and, for stores, from the
/// stored register) -- the calling convention of every scratch parameter ("distinct registers").
pub fn scratch_reg(s: &mut Src, base: R, other: R) -> (Register, R) {
    let k = s.below(31);
    let q = R::X(k);
    s.assume(q != base && q != other);
    (Register::new(k), q)
}
macro_rules! mem_helper {
    ($s:ident, $m:ident, $load:expr, $size:expr, $sf:expr) => {{
        let (t, qt) = reg($s);
        let (n, qn) = reg($s);
        let off = $s.i64();
        let (sc, qs) = scratch_reg($s, qn, if $load { R::None } else { qt });
        let mut a = prefilled();
        a.$m(t, MemOperand::new(n, off), sc);
        let (code, k) = emitted(a);
        chk_mem_helper(&code, k, $load, $size, $sf, qt, qn, off, qs);
    }};
}
macro_rules! mem_helper_v {
    ($s:ident, $m:ident, $load:expr, $size:expr) => {{
        let (t, qt) = neon($s);
        let (n, qn) = reg($s);
        let off = $s.i64();
        let (sc, qs) = scratch_reg($s, qn, R::None);
        let mut a = prefilled();
        a.$m(t, MemOperand::new(n, off), sc);
        let (code, k) = emitted(a);
        chk_mem_helper(&code, k, $load, $size, 0, qt, qn, off, qs);
    }};
}
crate::vp_harness!(ldr_mem_x, unwind = 66, |s| { mem_helper!(s, ldr_mem_x, true, 8, 64) });
crate::vp_harness!(ldr_mem_w, unwind = 66, |s| { mem_helper!(s, ldr_mem_w, true, 4, 32) });
crate::vp_harness!(ldr_mem_b, unwind = 66, |s| { mem_helper!(s, ldr_mem_b, true, 1, 32) });
crate::vp_harness!(ldr_mem_d, unwind = 66, |s| { mem_helper_v!(s, ldr_mem_d, true, 8) });
crate::vp_harness!(ldr_mem_s, unwind = 66, |s| { mem_helper_v!(s, ldr_mem_s, true, 4) });
crate::vp_harness!(str_mem_x, unwind = 66, |s| { mem_helper!(s, str_mem_x, false, 8, 64) });
crate::vp_harness!(str_mem_w, unwind = 66, |s| { mem_helper!(s, str_mem_w, false, 4, 32) });
crate::vp_harness!(str_mem_b, unwind = 66, |s| { mem_helper!(s, str_mem_b, false, 1, 32) });
crate::vp_harness!(str_mem_d, unwind = 66, |s| { mem_helper_v!(s, str_mem_d, false, 8) });
crate::vp_harness!(str_mem_s, unwind = 66, |s| { mem_helper_v!(s, str_mem_s, false, 4) });
