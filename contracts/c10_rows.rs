//! C10 — "the code ranges registered with the runtime are disjoint, so every address resolves to exactly one
//! function": contracts on CodeSpan (order / intersection laws, complete: loop-free over all usize) and on
//! CodeMap::{new, insert, get} (bounded: <= 3 spans; BTreeMap is std code under CBMC).
//! The items are cut verbatim from dora-runtime/src/runtime/code.rs and gc.rs (module `cut`).
use crate::cut::*;
use crate::vp::Src;
use std::cmp::Ordering;

fn addr(s: &mut Src) -> Address { Address::from(s.u64() as usize) }
/// a well-formed span: CodeSpan::new refuses start >= end
fn span(s: &mut Src) -> CodeSpan { let a = addr(s); let b = addr(s); CodeSpan::new(a, b) }
fn model_intersect(a: &CodeSpan, b: &CodeSpan) -> bool {
    let lo = if a.start.to_usize() > b.start.to_usize() { a.start.to_usize() } else { b.start.to_usize() };
    let hi = if a.end.to_usize() < b.end.to_usize() { a.end.to_usize() } else { b.end.to_usize() };
    lo < hi
}

crate::vp_harness!(span_new_refuses_empty, |s| {
    let a = addr(s); let b = addr(s);
    let sp = CodeSpan::new(a, b);
    crate::vp_check!(sp.start.to_usize() < sp.end.to_usize(), "CodeSpan::new returns only non-empty spans");
    crate::vp_check!(sp.start.to_usize() == a.to_usize() && sp.end.to_usize() == b.to_usize(), "CodeSpan::new keeps its bounds");
});

crate::vp_harness!(intersect_is_overlap, |s| {
    let a = span(s); let b = span(s);
    crate::vp_check!(a.intersect(&b) == model_intersect(&a, &b), "intersect(a,b) <=> max(starts) < min(ends)");
    crate::vp_check!(a.intersect(&b) == b.intersect(&a), "intersect is symmetric");
    crate::vp_check!((a == b) == a.intersect(&b), "== is intersection");
});

crate::vp_harness!(cmp_laws, |s| {
    let a = span(s); let b = span(s);
    let c = a.cmp(&b);
    crate::vp_check!((c == Ordering::Equal) == model_intersect(&a, &b), "cmp == Equal <=> the spans overlap");
    crate::vp_check!(model_intersect(&a, &b) || ((c == Ordering::Less) == (a.end.to_usize() <= b.start.to_usize())), "disjoint: Less <=> a lies entirely before b");
    crate::vp_check!(b.cmp(&a) == c.reverse(), "cmp is antisymmetric");
    crate::vp_check!(a.partial_cmp(&b) == Some(c), "partial_cmp agrees with cmp");
});

crate::vp_harness!(cmp_transitive_on_disjoint, |s| {
    let a = span(s); let b = span(s); let c = span(s);
    s.assume(!model_intersect(&a, &b) && !model_intersect(&b, &c) && !model_intersect(&a, &c));
    crate::vp_check!(!(a.cmp(&b) == Ordering::Less && b.cmp(&c) == Ordering::Less) || a.cmp(&c) == Ordering::Less, "Less is transitive on pairwise disjoint spans");
    crate::vp_check!(!(a.cmp(&b) == Ordering::Greater && b.cmp(&c) == Ordering::Greater) || a.cmp(&c) == Ordering::Greater, "Greater is transitive on pairwise disjoint spans");
});

crate::vp_harness!(point_query_order, |s| {
    // a one-byte query span compares Equal with exactly the span containing the address, and is ordered
    // consistently with the stored (pairwise disjoint) spans: what BTreeMap needs to find the unique match
    let sp = span(s); let p = addr(s);
    s.assume(p.to_usize() < usize::MAX);
    let q = CodeSpan::new(p, p.offset(1));
    crate::vp_check!((q.cmp(&sp) == Ordering::Equal) == (sp.start.to_usize() <= p.to_usize() && p.to_usize() < sp.end.to_usize()), "point query is Equal <=> start <= p < end");
    crate::vp_check!(q.cmp(&sp) != Ordering::Less || p.to_usize() < sp.start.to_usize(), "point query Less => p before the span");
    crate::vp_check!(q.cmp(&sp) != Ordering::Greater || p.to_usize() >= sp.end.to_usize(), "point query Greater => p after the span");
});

// CodeMap::{insert, get} delegate to std's BTreeMap<CodeSpan, CodeId>. Driving BTreeMap under CBMC exhausts memory
// even for two entries (tried: 5 min, out of memory), so the composition is NOT checked here: BTreeMap behaving as a
// map under a lawful Ord on the stored keys + query is an assumed contract on std. The rows above are exactly that
// lawfulness: a strict total order on pairwise-disjoint spans, and a point query that is Equal to the unique
// containing span and correctly ordered against all others.

// ---- concrete-only row (never run under Kani: BTreeMap is too heavy for CBMC): the real CodeMap::{new, insert, get}
// against a list model. Used by the driver to find a concrete failing input when a Verus obligation of
// contracts/c10_codemap.vspec fails, and as a cross-check of the assumed BTreeMap contract.
crate::vp_harness!(codemap_model__concrete_only, |s| {
    let n = 1 + (s.below(6) as usize);
    let mut m = CodeMap::new();
    let mut model: [(usize, usize, usize); 6] = [(0, 0, 0); 6];
    let mut cnt = 0usize;
    let mut k = 0usize;
    while k < n {
        let a = (s.below(40) as usize) * 4;
        let len = 1 + (s.below(12) as usize);
        let b = a + len;
        let mut clash = false;
        let mut j = 0usize;
        while j < cnt { if a.max(model[j].0) < b.min(model[j].1) { clash = true; } j += 1; }
        if !clash {
            m.insert(Address::from(a), Address::from(b), CodeId::from(100 + k));
            model[cnt] = (a, b, 100 + k);
            cnt += 1;
        }
        k += 1;
    }
    let mut p = 0usize;
    while p < 180 {
        let r = m.get(Address::from(p));
        let mut want: Option<usize> = None;
        let mut j = 0usize;
        while j < cnt { if model[j].0 <= p && p < model[j].1 { want = Some(model[j].2); } j += 1; }
        crate::vp_note!("ranges {:?} address {} -> {:?}, expected {:?}", &model[..cnt], p, r.map(|c| c.idx()), want);
        crate::vp_check!(r.map(|c| c.idx()) == want, "CodeMap::get resolves every address to the unique registered range containing it");
        p += 1;
    }
});
