// Replay runner for C20. `position.rs` of the working tree is compiled verbatim as a module of this
// binary (its #[cfg(test)] module cut off); dora-parser's compute_line_starts and Span are the real ones.
mod diag;
mod docsym;
mod wssym;
mod position;
use dora_parser::compute_line_starts;
use lsp_types::Position;
use position::{utf16_position_to_utf8_offset, utf8_offset_to_utf16_position};
use std::time::{Duration, Instant};

struct Rng(u64);
impl Rng {
    fn next(&mut self) -> u64 { self.0 ^= self.0 << 13; self.0 ^= self.0 >> 7; self.0 ^= self.0 << 17; self.0 }
    fn below(&mut self, n: usize) -> usize { (self.next() % n as u64) as usize }
}

const ATOMS: [&str; 22] = ["a", "\n", "\r\n", "\r", "é", "☃", "😀", "\u{10000}", "", " ", "\u{7f}", "\u{80}", "\u{7ff}", "\u{800}", "\u{ffff}",
    // one character per UTF-8 lead-byte class of the supplementary planes (F0, F1, F2, F3, F4) and the last scalar value
    "\u{3ffff}", "\u{40000}", "\u{80000}", "\u{e0100}", "\u{fffff}", "\u{100000}", "\u{10ffff}"];

fn gen_text(rng: &mut Rng, n: usize) -> String {
    let mut s = String::new();
    for _ in 0..n { s.push_str(ATOMS[rng.below(ATOMS.len())]); }
    s
}

fn ref_position(text: &str, ls: &[u32], off: usize) -> (u32, u32) {
    let mut line = 0usize;
    for (i, &st) in ls.iter().enumerate() { if (st as usize) <= off { line = i; } }
    let col: usize = text[ls[line] as usize..off].chars().map(|c| c.len_utf16()).sum();
    (line as u32, col as u32)
}

fn check_text(text: &str) -> Option<String> {
    let ls = match std::panic::catch_unwind(|| compute_line_starts(text)) { Ok(v) => v, Err(_) => return Some("compute_line_starts panicked".into()) };
    // assumed contract of compute_line_starts (wf): cross-checked here on concrete texts
    if ls.is_empty() || ls[0] != 0 { return Some(format!("wf: line_starts {:?} does not start with 0", ls)); }
    for w in ls.windows(2) { if w[0] >= w[1] { return Some(format!("wf: line_starts {:?} not strictly increasing", ls)); } }
    for &s in &ls { if s as usize > text.len() || !text.is_char_boundary(s as usize) { return Some(format!("wf: line start {} is not a char boundary of the text", s)); } }
    // editor (LSP) line structure: a line ends after "\n", "\r\n" or a lone "\r"
    let mut want: Vec<u32> = vec![0];
    let b = text.as_bytes();
    let mut i = 0usize;
    while i < b.len() {
        if b[i] == b'\n' { want.push(i as u32 + 1); }
        else if b[i] == b'\r' {
            if i + 1 < b.len() && b[i + 1] == b'\n' { want.push(i as u32 + 2); i += 1; } else { want.push(i as u32 + 1); }
        }
        i += 1;
    }
    if ls != want { return Some(format!("compute_line_starts = {:?}, but the lines of the text (LF / CRLF / CR terminated) start at {:?}", ls, want)); }
    for off in 0..=text.len() {
        if !text.is_char_boundary(off) { continue; }
        let p = match std::panic::catch_unwind(|| utf8_offset_to_utf16_position(text, &ls, off as u32)) {
            Ok(p) => p,
            Err(_) => return Some(format!("utf8_offset_to_utf16_position panicked at char-boundary offset {}", off)),
        };
        let (rl, rc) = ref_position(text, &ls, off);
        if (p.line, p.character) != (rl, rc) {
            return Some(format!("offset {} -> position ({}, {}), contract says ({}, {})", off, p.line, p.character, rl, rc));
        }
        let back = match std::panic::catch_unwind(|| utf16_position_to_utf8_offset(text, &ls, p)) {
            Ok(b) => b,
            Err(_) => return Some(format!("utf16_position_to_utf8_offset panicked on position ({}, {})", p.line, p.character)),
        };
        if back as usize != off {
            return Some(format!("offset {} -> position ({}, {}) -> offset {} (round trip broken)", off, p.line, p.character, back));
        }
    }
    // clamping: every (line, column) incl. out-of-range ones
    let nl = ls.len() as u32;
    for line in 0..nl + 2 {
        for col in [0u32, 1, 2, 3, 5, 8, 1000, u32::MAX] {
            let r = match std::panic::catch_unwind(|| utf16_position_to_utf8_offset(text, &ls, Position::new(line, col))) {
                Ok(r) => r as usize,
                Err(_) => return Some(format!("utf16_position_to_utf8_offset panicked on position ({}, {})", line, col)),
            };
            if r > text.len() || !text.is_char_boundary(r) { return Some(format!("position ({}, {}) -> offset {} outside the document / not a char boundary", line, col, r)); }
            if line >= nl && r != text.len() { return Some(format!("position ({}, {}) past the last line -> offset {} (expected document end {})", line, col, r, text.len())); }
            if line < nl {
                let lo = ls[line as usize] as usize;
                let hi = if (line + 1) < nl { ls[line as usize + 1] as usize } else { text.len() };
                if r < lo || r > hi { return Some(format!("position ({}, {}) -> offset {} outside its line [{}, {}]", line, col, r, lo, hi)); }
                let width: usize = text[lo..hi].chars().map(|c| c.len_utf16()).sum();
                if col as usize > width && r != hi { return Some(format!("column {} past the end of line {} -> offset {} (expected line end {})", col, line, r, hi)); }
            }
        }
    }
    None
}

// ---- symbol ranges (document_symbols.rs, cut verbatim into docsym.rs; executed, not proved) ----------------------
const CODE_ATOMS: [&str; 107] = [
    "fn f() {}", "fn g(a: Int64): Int64 { a }", "class A { x: Int64, y: Bool }", "class B", "struct S(Int64, Bool)", "struct P { a: Int64 }",
    "enum E { A, B(Int64), C { v: Int64 } }", "trait T { fn m(); fn n(): Int64; }", "impl T for A { fn m() {} fn n(): Int64 { 1 } }",
    "impl A { fn q() {} static fn r() {} }", "mod m { fn h() {} class Inner { z: Int64 } }", "const K: Int64 = 1;", "let G: Int64 = 1;",
    "type Al = Int64;", "use std::string::String;", "extern fn e();", "@Test fn t() {}", "pub", "fn", "class", "{", "}", "(", ")", ";", ":",
    "fn é() {}", "class Ü😀 { ö: Int64 }", "// c 😀\n", "/* a\nb */", " ", "\n", "\r\n", "\r", "\t", "fn a()\r\n{\r\n}\r\n", "enum", "trait X {", "impl", "\u{e0100}",
    // the same names again, as other kinds (shadowing of every kind by every kind)
    "class f", "struct f(Int64)", "enum f { X }", "trait f {}", "const f: Int64 = 1;", "let f: Int64 = 1;", "mod f {}", "type f = Int64;", "fn A() {}", "fn K() {}", "fn G() {}", "fn Al() {}", "fn m() {}", "fn E() {}", "fn T() {}", "fn S() {}",
    // members that repeat, odd members, nesting
    "class D { x: Int64, x: Bool }", "struct Q { a: Int64, a: Int64 }", "enum R { A, A }", "enum V { W { v: Int64, v: Bool } }", "enum Z {}", "trait U { fn m(); fn m(); }", "trait W { type X; type X; const C: Int64; }",
    "impl A { fn q() {} fn q() {} }", "impl T for A { type X = Int64; }", "impl[T] A { fn z(t: T) {} }", "fn h[T, T](t: T) {}", "class L[X, X]", "mod m { mod m { mod m { fn deep() {} } } }", "mod n;", "mod m { use super::f; }",
    "use self::m::h;", "use std::{string, collections::{HashMap, Vec}};", "use foo::bar as baz;", "use package::x;", "pub(crate) fn vis() {}", "pub pub fn pp() {}", "static fn top() {}", "@Optimize @Test fn o() {}", "@internal class I", "@internal fn ifn();",
    "extern \"C\" fn ec();", "let mut M: Int64 = 1;", "const: Int64 = 1;", "fn () {}", "class {}", "struct ()", "enum { A }", "trait {}", "impl {}", "impl for A {}", "type = Int64;", "fn w(): { }", "fn x(a, b) {}", "fn y(a: ) {}",
    // types that lose a part to a parse error
    "fn qa(a: [A as]::X) {}", "fn qb(a: [as T]::X) {}", "fn qc(a: [A as T]::) {}", "fn qd(a: [A as T]::X) {}", "fn qe(): (Int64, ) {}", "fn qf(a: (Int64): ) {}", "fn qg(a: ref) {}", "fn qh(a: A[) {}",
    "[", "]", "as", "::",
];
const SNIPPETS: [&str; 40] = [
    "fn f(a: Int64, b: Int64): Int64 { a + b * 2 }", "fn g[T: A + B](x: T): T where T: C { x }", "class C(pub a: Int64, b: String)", "class D[T] { x: T, y: Int32 }",
    "struct S(Int64, Bool)", "struct T { a: UInt8, b: Char }", "enum E { A, B(Int64), C { v: Int64, w: Bool } }", "trait R { fn get(): Int64; type X; const K: Int64; }",
    "impl R for C { fn get(): Int64 { 1 } type X = Int64; }", "impl[T] D[T] { static fn make(): D[T] { D[T](x = 1) } }", "mod m { pub fn inner(): Int64 { 1 } mod n { fn deep() {} } }",
    "const K: Int64 = 1234567890123;", "let mut G: Int64 = 7;", "type Alias[T] = Vec[T];", "use std::collections::{HashMap, Vec as V};", "use package::a::b;", "extern \"C\" fn ext(a: Int32): Int32;",
    "@Test @Optimize fn annotated() {}", "fn m(e: Option[Int64]): Int64 { match e { Some(x) if x > 0 => x, Some(_) | None => 0 } }",
    "fn l(): Int64 { let f = |x: Int64, y|: Int64 { x + y }; f(1, 2) }", "fn w(n: Int64) { let mut i = 0; while i < n { i += 1; if i == 3 { continue; } else if i > 9 { break; } } }",
    "fn fo(v: Vec[Int64]) { for (i, x) in v.enumerate() { println(\"${i}: ${x + 1} }\"); } }", "fn t(): (Int64, Bool) { let (a, b) = (1, true); (a, b) }",
    "fn p(s: S) { let S(a, _) = s; let T { a: q, .. } = t; }", "fn c(x: Int64): Bool { x is Some(y) && y as Int32 == 1i32 }", "fn q(a: [T as Tr]::X, b: ref T, c: (Int64) -> Bool) {}",
    "fn idx(a: Array[Int64]): Int64 { a(0) + a[1] + a.b.c(2).d[T]::e() }", "fn ops(a: Int64): Int64 { -a + !a * (a << 2 >> 1 >>> 3) % 5 / 6 & 7 | 8 ^ 9 }",
    "fn cmp(a: Int64): Bool { a == 1 || a != 2 && a < 3 || a <= 4 || a > 5 || a >= 6 || a === a || a !== a }", "fn asg() { a = 1; a.b = 2; a(0) = 3; a += 1; a -= 1; a *= 2; a /= 2; a %= 2; a |= 1; a &= 1; a ^= 1; a <<= 1; a >>= 1; a >>>= 1; }",
    "fn lit() { 0x1F; 0b101; 1_000; 1i32; 2.5e-3; 'c'; '\\n'; \"s\"; \"a${x}b${y}c\"; true; false; self; Self::X; }", "fn blk(): Int64 { { let x = { 1 }; x } }", "fn ret(): Int64 { return 1; }",
    "fn ife(): Int64 { if a { 1 } else if b { 2 } else { 3 } }", "fn path() { a::b::c(); Vec[Int64]::new(); [T as I]::f(); }", "fn tmpl(): String { \"${ \"${1}\" }${ { 2 } }\" }",
    "// line comment\nfn after_comment() {} /* block */", "fn generic_call() { f[Int64, Vec[Bool]](1); x.m[T](); }", "pub static mutating fn mods() {}", "fn dots() { a..b; a..=b; f(xs...); }",
];
/// well-formed snippets damaged token-wise (token boundaries by the real lexer)
fn gen_code_mutant(rng: &mut Rng) -> String {
    let k = 1 + rng.below(4);
    let mut text = String::new();
    for _ in 0..k { text.push_str(SNIPPETS[rng.below(SNIPPETS.len())]); text.push_str(if rng.below(2) == 0 { "\n" } else { " " }); }
    let lexed = dora_parser::lex(&text);
    let mut toks: Vec<String> = Vec::new();
    for (i, &s) in lexed.starts.iter().enumerate() {
        let e = if i + 1 < lexed.starts.len() { lexed.starts[i + 1] as usize } else { text.len() };
        toks.push(text[s as usize..e].to_string());
    }
    for _ in 0..rng.below(4) {
        if toks.is_empty() { break; }
        let i = rng.below(toks.len());
        match rng.below(5) {
            0 => { toks.remove(i); }
            1 => { let t = toks[i].clone(); toks.insert(i, t); }
            2 => { let j = rng.below(toks.len()); toks.swap(i, j); }
            3 => { toks[i] = CODE_ATOMS[rng.below(CODE_ATOMS.len())].to_string(); }
            _ => { toks.truncate(i); }
        }
    }
    toks.concat()
}
fn gen_code(rng: &mut Rng, n: usize) -> String {
    if rng.below(2) == 0 { return gen_code_mutant(rng); }
    let mut s = String::new();
    for _ in 0..n {
        s.push_str(CODE_ATOMS[rng.below(CODE_ATOMS.len())]);
        match rng.below(4) { 0 => s.push(' '), 1 => s.push('\n'), _ => {} }
    }
    s
}
thread_local! { static LAST_PANIC: std::cell::RefCell<String> = std::cell::RefCell::new(String::new()); }
fn pos_le(a: &Position, b: &Position) -> bool { (a.line, a.character) <= (b.line, b.character) }
fn check_symbol(sym: &lsp_types::DocumentSymbol, parent: Option<&lsp_types::Range>, end: &Position, depth: usize) -> Result<usize, String> {
    let r = &sym.range;
    let sel = &sym.selection_range;
    if !pos_le(&r.start, &r.end) { return Err(format!("symbol {:?}: range start after end", sym.name)); }
    if !pos_le(&r.end, end) { return Err(format!("symbol {:?}: range ends at ({}, {}) after the document end ({}, {})", sym.name, r.end.line, r.end.character, end.line, end.character)); }
    if !(pos_le(&r.start, &sel.start) && pos_le(&sel.start, &sel.end) && pos_le(&sel.end, &r.end)) {
        return Err(format!("symbol {:?}: selection range ({},{})-({},{}) not inside its range ({},{})-({},{})", sym.name,
            sel.start.line, sel.start.character, sel.end.line, sel.end.character, r.start.line, r.start.character, r.end.line, r.end.character));
    }
    if let Some(p) = parent {
        if !(pos_le(&p.start, &r.start) && pos_le(&r.end, &p.end)) { return Err(format!("symbol {:?}: range not inside its parent's range", sym.name)); }
    }
    let mut n = 1;
    if depth < 64 {
        for c in sym.children.iter().flatten() { n += check_symbol(c, Some(r), end, depth + 1)?; }
    }
    Ok(n)
}
// ---- published diagnostics (compile_project_main of server.rs, cut verbatim into diag.rs; executed, not proved) ----------
/// items of a well-typed program; `#` = fresh number
const OK_ITEMS: [&str; 8] = [
    "fn f#(a: Int64, b: Int64): Int64 { a + b * 2 }", "class C#(pub a: Int64, pub b: String)", "struct S#(Int64, Bool)", "enum E# { A, B(Int64) }",
    "fn s#(): String { \"hällo 😀 end\" }", "const K#: Int64 = 1;", "/* 😀 é */ fn c#() {}", "fn m#(e: Option[Int64]): Int64 { match e { Some(x) => x, None => 0 } }",
];
/// items with exactly the kind of mistake a user makes, placed after non-ASCII text on the same line
const BAD_ITEMS: [&str; 14] = [
    "fn e#(): Int64 { let é = \"ü😀\"; true }", "/* 😀😀 */ fn u#(): Int64 { unknown_name }", "fn t#() { let ö: Int64 = \"ä\"; }", "fn d#() { let 😀 = 1; }",
    "class Ü# { x: UnknownType }", "fn r#(): Bool { \"😀\".size() }", "fn w#() { let a = 1; let é = a.nothing(); }", "fn q#(é: Int64): Strin { é }",
    "mod missing#;", "use missing#::x;", "use self::nothing#;", "mod inner# { use super::gone; }", "impl Missing# { fn m() {} }", "impl Tr# for Int64 {}",
];
fn gen_diag_program(rng: &mut Rng) -> String {
    let n = 1 + rng.below(6);
    let mut s = String::new();
    for k in 0..n {
        let it = if rng.below(3) == 0 { BAD_ITEMS[rng.below(BAD_ITEMS.len())] } else { OK_ITEMS[rng.below(OK_ITEMS.len())] };
        s.push_str(&it.replace('#', &format!("{}", k)));
        s.push_str(match rng.below(3) { 0 => "\r\n", 1 => " ", _ => "\n" });
    }
    s.push_str("fn main() {}\n");
    // now and then a document that is still being typed: cut somewhere (on a character boundary)
    if rng.below(3) == 0 {
        let mut cut = rng.below(s.len() + 1);
        while !s.is_char_boundary(cut) { cut -= 1; }
        s.truncate(cut);
    }
    s
}
/// contract: every published diagnostic carries the UTF-16 range (position.rs, proved) of its error span
fn check_diagnostics(text: &str) -> Option<String> {
    use dora_frontend::sema::{Sema, SemaCreationParams};
    let main = std::path::PathBuf::from("/vx-c20/main.dora");
    let expected = std::panic::catch_unwind(|| {
        let vfs = dora_frontend::Vfs::new().open_file(main.clone(), std::sync::Arc::new(text.to_string()));
        let mut sa = Sema::new(SemaCreationParams::new().set_program_path(main.clone()).set_vfs(vfs));
        dora_frontend::check_program(&mut sa);
        let mut v: Vec<(u32, u32, u32, u32)> = Vec::new();
        let d = sa.diag.borrow();
        for e in d.errors().iter().chain(d.warnings().iter()) {
            if let (Some(fid), Some(span)) = (e.file_id, e.span) {
                let f = sa.file(fid);
                if f.path != main { continue; }
                let r = position::span_to_range(&f.content, &f.line_starts, span);
                v.push((r.start.line, r.start.character, r.end.line, r.end.character));
            }
        }
        v.sort();
        v
    });
    let expected = match expected {
        Ok(v) => v,
        // the server runs the same analysis in compile_project_main: a panic of the front end on this text takes the server's worker down
        Err(_) => return Some(format!("document analysis (check_program, as run by compile_project_main) panicked at {}", LAST_PANIC.with(|c| c.borrow().clone()))),
    };
    let got = match std::panic::catch_unwind(|| diag::vx_diagnostics(text)) {
        Ok(d) => d,
        Err(_) => return Some(format!("compile_project_main panicked at {}", LAST_PANIC.with(|c| c.borrow().clone()))),
    };
    let mut g: Vec<(u32, u32, u32, u32)> = got.iter().map(|d| (d.range.start.line, d.range.start.character, d.range.end.line, d.range.end.character)).collect();
    g.sort();
    // every published range must be the UTF-16 range of one of the error spans (multiset inclusion: publishing fewer diagnostics is not a position defect)
    let mut pool = expected.clone();
    for r in g.iter() {
        match pool.iter().position(|e| e == r) {
            Some(k) => { pool.remove(k); }
            None => return Some(format!("a published diagnostic has the range {:?}, which is not the UTF-16 range of any error span of the text (those are {:?})", r, expected)),
        }
    }
    None
}

/// workspace symbols: every reported location range is ordered and inside the document; no panic
fn check_ws_symbols(text: &str) -> Option<String> {
    let owned = std::sync::Arc::new(text.to_string());
    let syms = match std::panic::catch_unwind(|| wssym::vx_scan_ws(owned)) {
        Ok(s) => s,
        Err(_) => return Some(format!("workspace symbol scan panicked at {}", LAST_PANIC.with(|c| c.borrow().clone()))),
    };
    let ls = compute_line_starts(text);
    let end = utf8_offset_to_utf16_position(text, &ls, text.len() as u32);
    for s in syms.iter() {
        if let lsp_types::OneOf::Left(loc) = &s.location {
            let r = &loc.range;
            if !pos_le(&r.start, &r.end) || !pos_le(&r.end, &end) {
                return Some(format!("workspace symbol {:?}: range ({},{})-({},{}) not inside the document (end ({},{}))", s.name, r.start.line, r.start.character, r.end.line, r.end.character, end.line, end.character));
            }
        }
    }
    None
}
/// None = fine; Some(what) = violation
fn check_symbols(text: &str) -> Option<String> {
    let owned = std::sync::Arc::new(text.to_string());
    let syms = match std::panic::catch_unwind(|| docsym::vx_scan(owned)) {
        Ok(s) => s,
        Err(_) => return Some(format!("document symbol scan panicked at {}", LAST_PANIC.with(|c| c.borrow().clone()))),
    };
    let ls = compute_line_starts(text);
    let end = utf8_offset_to_utf16_position(text, &ls, text.len() as u32);
    for s in syms.iter() {
        if let Err(e) = check_symbol(s, None, &end, 0) { return Some(e); }
    }
    None
}

fn to_hex(s: &str) -> String { s.bytes().map(|b| format!("{:02x}", b)).collect() }
fn from_hex(h: &str) -> String {
    let b: Vec<u8> = (0..h.len() / 2).map(|i| u8::from_str_radix(&h[2 * i..2 * i + 2], 16).unwrap()).collect();
    String::from_utf8(b).unwrap()
}

fn main() {
    if std::env::var("VX_BACKTRACE").is_err() {
        // remember WHERE the last panic happened (file name and line, without the checkout path): a finding is keyed by it
        std::panic::set_hook(Box::new(|info| {
            let loc = info.location().map(|l| {
                let f = l.file();
                let short = match f.find("dora-") { Some(i) => &f[i..], None => f };
                format!("{}:{}", short, l.line())
            }).unwrap_or_else(|| "unknown location".to_string());
            LAST_PANIC.with(|c| *c.borrow_mut() = loc);
        }));
    }
    let args: Vec<String> = std::env::args().collect();
    if args.len() >= 3 && args[1] == "dump-symbols" {
        let t = from_hex(&args[2]);
        fn dump(s: &lsp_types::DocumentSymbol, d: usize) {
            println!("{}{:?} {:?} range ({},{})-({},{}) sel ({},{})-({},{})", "  ".repeat(d), s.kind, s.name, s.range.start.line, s.range.start.character, s.range.end.line, s.range.end.character,
                     s.selection_range.start.line, s.selection_range.start.character, s.selection_range.end.line, s.selection_range.end.character);
            for c in s.children.iter().flatten() { dump(c, d + 1); }
        }
        for s in docsym::vx_scan(std::sync::Arc::new(t)).iter() { dump(s, 0); }
        return;
    }
    if args.len() >= 3 && args[1] == "replay-diag" {
        let t = from_hex(&args[2]);
        match check_diagnostics(&t) {
            Some(w) => { println!("STILL FAILS on the real code: text {:?}: {}", t, w); std::process::exit(1) }
            None => { println!("text passes on the real code"); std::process::exit(0) }
        }
    }
    if args.len() >= 4 && args[1] == "diag" {
        let seed: u64 = args[2].parse().unwrap();
        let count: u64 = args[3].parse().unwrap();
        let mut rng = Rng(seed.wrapping_mul(0x9E3779B97F4A7C15) | 1);
        // first: documents that are still being typed (every prefix an editor sends while a declaration is written)
        const TYPING: [&str; 40] = [
            "fn", "fn ", "fn f", "fn f(", "fn f(a", "fn f(a:", "fn f(a: Int64", "fn f()", "fn f():", "fn f(): Int64", "fn f() {", "fn f() { let", "fn f() { let x =", "fn f() { x.", "fn f() { x(",
            "const", "const X", "const X:", "const X: Int64 =", "let G: Int64 =", "mod", "mod ", "mod foo", "mod foo;", "mod m {", "impl", "impl ", "impl T for", "impl[T]", "impl A {",
            "class", "class C {", "class C(", "struct S(", "enum E {", "enum E { A(", "trait T {", "trait T { fn m(", "use", "use a::",
        ];
        for t in TYPING.iter() {
            for prefix in ["", "fn ok() {}\n", "/* é😀 */ class K\n"] {
                let text = format!("{}{}", prefix, t);
                if let Some(w) = check_diagnostics(&text) { println!("{{\"found\":true,\"tried\":0,\"kind\":\"diag\",\"text_hex\":\"{}\",\"what\":{:?}}}", to_hex(&text), w); return; }
            }
        }
        for k in 0..count {
            let t = gen_diag_program(&mut rng);
            if let Some(w) = check_diagnostics(&t) { println!("{{\"found\":true,\"tried\":{},\"kind\":\"diag\",\"text_hex\":\"{}\",\"what\":{:?}}}", k + 1, to_hex(&t), w); return; }
        }
        println!("{{\"found\":false,\"tried\":{}}}", count);
        return;
    }
    if args.len() >= 3 && args[1] == "replay-ws-symbols" {
        let t = from_hex(&args[2]);
        match check_ws_symbols(&t) {
            Some(w) => { println!("STILL FAILS on the real code: text {:?}: {}", t, w); std::process::exit(1) }
            None => { println!("text passes on the real code"); std::process::exit(0) }
        }
    }
    if args.len() >= 3 && args[1] == "replay-symbols" {
        let t = from_hex(&args[2]);
        match check_symbols(&t) {
            Some(w) => { println!("STILL FAILS on the real code: text {:?}: {}", t, w); std::process::exit(1) }
            None => { println!("text passes on the real code"); std::process::exit(0) }
        }
    }
    if args.len() >= 3 && args[1] == "replay" {
        let t = from_hex(&args[2]);
        match check_text(&t) {
            Some(w) => { println!("STILL FAILS on the real code: text {:?}: {}", t, w); std::process::exit(1) }
            None => { println!("text passes on the real code"); std::process::exit(0) }
        }
    }
    let seed: u64 = args.get(2).and_then(|s| s.parse().ok()).unwrap_or(1);
    let budget = Duration::from_millis(args.get(3).and_then(|s| s.parse().ok()).unwrap_or(3000));
    let t0 = Instant::now();
    let mut tried = 0u64;
    // exhaustive: all texts of <= 4 atoms over a reduced alphabet
    let small = ["a", "\n", "\r\n", "\r", "😀", "é", "\u{e0100}"];
    let mut all: Vec<String> = vec![String::new()];
    let mut frontier = vec![String::new()];
    for _ in 0..4 {
        let mut nf = Vec::new();
        for p in &frontier { for a in small.iter() { let mut s = p.clone(); s.push_str(a); nf.push(s); } }
        all.extend(nf.iter().cloned());
        frontier = nf;
    }
    for t in &all {
        tried += 1;
        if let Some(w) = check_text(t) { println!("{{\"found\":true,\"tried\":{},\"text_hex\":\"{}\",\"what\":{:?}}}", tried, to_hex(t), w); return; }
    }
    let mut rng = Rng(seed.wrapping_mul(0x9E3779B97F4A7C15) | 1);
    let mut sym_tried = 0u64;
    let mut ws_tried = 0u64;
    while t0.elapsed() < budget {
        // every 16th case: a program-like text through the workspace-symbol scan (parses the standard library too: ~slow)
        if tried % 16 == 15 {
            let n = [1usize, 2, 4, 9, 25][rng.below(5)];
            let t = gen_code(&mut rng, n);
            tried += 1;
            ws_tried += 1;
            if let Some(w) = check_ws_symbols(&t) { println!("{{\"found\":true,\"tried\":{},\"kind\":\"ws-symbols\",\"text_hex\":\"{}\",\"what\":{:?}}}", tried, to_hex(&t), w); return; }
            continue;
        }
        // every 4th case: a program-like text through the document-symbol scan
        if tried % 4 == 3 {
            let n = [1usize, 2, 4, 9, 25][rng.below(5)];
            let t = gen_code(&mut rng, n);
            tried += 1;
            sym_tried += 1;
            if let Some(w) = check_symbols(&t) { println!("{{\"found\":true,\"tried\":{},\"kind\":\"symbols\",\"text_hex\":\"{}\",\"what\":{:?}}}", tried, to_hex(&t), w); return; }
            continue;
        }
        let n = [1usize, 3, 8, 20, 60][rng.below(5)];
        let t = gen_text(&mut rng, n);
        tried += 1;
        if let Some(w) = check_text(&t) { println!("{{\"found\":true,\"tried\":{},\"text_hex\":\"{}\",\"what\":{:?}}}", tried, to_hex(&t), w); return; }
    }
    println!("{{\"found\":false,\"tried\":{},\"exhaustive_small\":{},\"symbol_scans\":{},\"workspace_scans\":{}}}", tried, all.len(), sym_tried, ws_tried);
}
