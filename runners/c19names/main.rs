// Runner for the premise of C19 that the contracts cannot reach: "distinct functions have distinct display names"
// (the symbol is mangle(display name); mangling is PROVED injective, so a collision can only come from here).
// Links the REAL dora-frontend / dora-bytecode: type-checks generated programs, emits the Program and checks that
// display_fct is injective over all functions of the program (standard library included). Executed, not proved.
mod aotnames;
use aotnames::{aot_compiled_function_name, CompiledFunction, CompiledFunctionTarget};
use dora_bytecode::{display_fct, BytecodeType, BytecodeTypeArray, FunctionId, FunctionKind, Program};
use dora_compiler::TraitObjectThunk;
use dora_frontend::sema::{Sema, SemaCreationParams};
use dora_frontend::{check_program, emit_program};
use std::collections::HashMap;
use std::sync::Arc;
use std::time::{Duration, Instant};

struct Rng(u64);
impl Rng {
    fn next(&mut self) -> u64 { self.0 ^= self.0 << 13; self.0 ^= self.0 >> 7; self.0 ^= self.0 << 17; self.0 }
    fn below(&mut self, n: usize) -> usize { (self.next() % n as u64) as usize }
}

/// shapes in which two different functions share their simple name; `#` = fresh number
const ITEMS: [&str; 18] = [
    "fn same() {}",
    "mod ma# { pub fn same() {} pub mod inner { pub fn same() {} } }",
    "mod mb# { pub fn same() {} }",
    "class K# impl K# { fn same() {} static fn other() {} }",
    "class L# impl L# { fn same() {} }\nimpl L# { fn second() {} }",
    "trait T# { fn same(); fn dflt() {} }",
    "class I# trait U# { fn same(); } impl U# for I# { fn same() {} }",
    "class J# trait V#[X] { fn get(): X; } impl V#[Int64] for J# { fn get(): Int64 { 1 } } impl V#[Bool] for J# { fn get(): Bool { true } }",
    "class G#[T] impl[T] G#[T] { fn same() {} }",
    "class H#[T] trait W# { fn same(); } impl W# for H#[Int64] { fn same() {} } impl W# for H#[Bool] { fn same() {} }",
    "fn lam#(): Int64 { let a = |x: Int64|: Int64 { x + 1 }; let b = |x: Int64|: Int64 { x + 2 }; a(1) + b(2) }",
    "fn lamnest#(): Int64 { let a = |x: Int64|: Int64 { let c = |y: Int64|: Int64 { y }; c(x) }; a(1) }",
    "fn gen#[T](t: T): T { t }",
    "enum E# { A, B } impl E# { fn same() {} }",
    "struct S#(Int64) impl S# { fn same() {} }",
    "impl Int64 { fn same#() {} }",
    "impl String { fn same#() {} }",
    "trait X# { fn same(); } impl X# for Int64 { fn same() {} } impl X# for String { fn same() {} }",
];

fn gen_program(rng: &mut Rng) -> String {
    let n = 1 + rng.below(8);
    let mut s = String::new();
    let mut used_plain = false;
    for k in 0..n {
        let i = rng.below(ITEMS.len());
        if i == 0 { if used_plain { continue; } used_plain = true; }
        s.push_str(&ITEMS[i].replace('#', &format!("{}", k)));
        s.push('\n');
    }
    s.push_str("fn main() {}\n");
    s
}

fn build(text: &str) -> Option<Program> {
    let mut sa = Sema::new(SemaCreationParams::new().set_program_content(Arc::new(text.to_string())));
    if !check_program(&mut sa) { return None; }
    Some(emit_program(sa))
}

fn check(text: &str) -> Result<Option<usize>, String> {
    let prog = match std::panic::catch_unwind(|| build(text)) { Ok(Some(p)) => p, _ => return Ok(None) };
    let mut seen: HashMap<String, usize> = HashMap::new();
    for i in 0..prog.functions.len() {
        if prog.functions[i].name == "<dummy>" { continue; } // padding entries of the emitter (never compiled)
        let name = match std::panic::catch_unwind(std::panic::AssertUnwindSafe(|| display_fct(&prog, FunctionId::from(i)))) {
            Ok(n) => n,
            Err(_) => return Err(format!("display_fct panics for function #{} ({:?})", i, prog.functions[i].name)),
        };
        if let Some(j) = seen.insert(name.clone(), i) {
            return Err(format!("functions #{} and #{} have the same display name {:?} (hence the same linker symbol)", j, i, name));
        }
    }
    // instantiations: the AOT name of (function, type arguments) must distinguish every type argument - of the container (impl / extension)
    // and of the function itself. For every generic function: vary one position at a time.
    let tys = [BytecodeType::Int64, BytecodeType::Bool, BytecodeType::Float32];
    for i in 0..prog.functions.len() {
        let f = &prog.functions[i];
        if f.name == "<dummy>" { continue; }
        if matches!(f.kind, FunctionKind::Trait(_)) { continue; } // trait methods are instantiated through Self; not compiled under this name
        let n = f.type_params.names.len();
        if n == 0 || n > 6 { continue; }
        let base: Vec<BytecodeType> = (0..n).map(|_| BytecodeType::Int64).collect();
        let name_of = |tps: &Vec<BytecodeType>| -> Result<String, String> {
            let entry = CompiledFunction { target: CompiledFunctionTarget::Function { fct_id: FunctionId::from(i), type_params: BytecodeTypeArray::new(tps.clone()) } };
            std::panic::catch_unwind(std::panic::AssertUnwindSafe(|| aot_compiled_function_name(&prog, &entry)))
                .map_err(|_| format!("aot_compiled_function_name panics for function #{} ({:?}) with type arguments {:?}", i, f.name, tps))
        };
        let n0 = name_of(&base)?;
        for j in 0..n {
            for t in tys.iter().skip(1) {
                let mut v = base.clone();
                v[j] = t.clone();
                let n1 = name_of(&v)?;
                if n1 == n0 {
                    return Err(format!("two instantiations of function #{} ({:?}) that differ in type argument {} ({:?} / Int64) get the same name {:?} (hence the same linker symbol)", i, f.name, j, t, n0));
                }
            }
        }
    }
    // trait-object thunks: the name must distinguish the trait method, the concrete type and the trait-object type (incl. its type arguments)
    for i in 0..prog.functions.len() {
        let f = &prog.functions[i];
        let trait_id = match f.kind { FunctionKind::Trait(id) => id, _ => continue };
        if f.name == "<dummy>" { continue; }
        let thunk = |actual: BytecodeType, targs: Vec<BytecodeType>| -> Result<String, String> {
            let entry = CompiledFunction { target: CompiledFunctionTarget::TraitObjectThunk(TraitObjectThunk {
                trait_fct_id: FunctionId::from(i),
                trait_object_ty: BytecodeType::TraitObject(trait_id, BytecodeTypeArray::new(targs.clone()), BytecodeTypeArray::empty()),
                actual_object_ty: actual.clone() }) };
            std::panic::catch_unwind(std::panic::AssertUnwindSafe(|| aot_compiled_function_name(&prog, &entry)))
                .map_err(|_| format!("aot_compiled_function_name panics for a thunk of trait method #{} ({:?})", i, f.name))
        };
        let a = thunk(BytecodeType::Int64, vec![BytecodeType::Int64])?;
        let b = thunk(BytecodeType::Int64, vec![BytecodeType::Bool])?;
        let c = thunk(BytecodeType::Bool, vec![BytecodeType::Int64])?;
        if a == b { return Err(format!("thunks of trait method #{} ({:?}) for the same concrete type as two different trait-object types get the same name {:?}", i, f.name, a)); }
        if a == c { return Err(format!("thunks of trait method #{} ({:?}) for two different concrete types get the same name {:?}", i, f.name, a)); }
    }
    // native functions are linked by mangle_name(native_function_path(..)) (dora-compiler/src/native_lookup.rs): unique, valid characters
    let mut natives: HashMap<String, usize> = HashMap::new();
    for i in 0..prog.functions.len() {
        if !prog.functions[i].is_native { continue; }
        let sym = match std::panic::catch_unwind(std::panic::AssertUnwindSafe(|| dora_compiler::native_function_symbol(&prog, FunctionId::from(i)))) {
            Ok(s) => s,
            Err(_) => return Err(format!("native_function_symbol panics for native function #{} ({:?})", i, prog.functions[i].name)),
        };
        if !sym.starts_with("dora_") || !sym.bytes().all(|b| b.is_ascii_alphanumeric() || b == b'_') {
            return Err(format!("native function #{} gets the symbol {:?}: not `dora_` + [A-Za-z0-9_]*", i, sym));
        }
        if let Some(j) = natives.insert(sym.clone(), i) {
            return Err(format!("native functions #{} and #{} get the same linker symbol {:?}", j, i, sym));
        }
    }
    Ok(Some(prog.functions.len()))
}

fn to_hex(s: &str) -> String { s.bytes().map(|b| format!("{:02x}", b)).collect() }
fn from_hex(h: &str) -> String {
    let b: Vec<u8> = (0..h.len() / 2).map(|i| u8::from_str_radix(&h[2 * i..2 * i + 2], 16).unwrap()).collect();
    String::from_utf8(b).unwrap()
}

fn main() {
    std::panic::set_hook(Box::new(|_| {}));
    let args: Vec<String> = std::env::args().collect();
    if args.len() >= 2 && args[1] == "items" {
        for it in ITEMS.iter() {
            let t = format!("{}\nfn main() {{}}\n", it.replace('#', "0"));
            let ok = matches!(std::panic::catch_unwind(|| build(&t)), Ok(Some(_)));
            println!("{} {}", if ok { "ok      " } else { "REJECTED" }, it);
            if ok && it.contains("lam") {
                let p = build(&t).unwrap();
                for i in 0..p.functions.len() { let n = display_fct(&p, FunctionId::from(i)); if i + 8 > p.functions.len() { println!("      #{} {} (name {:?}, bytecode: {})", i, n, p.functions[i].name, p.functions[i].bytecode.is_some()); } }
            }
        }
        return;
    }
    if args.len() >= 3 && args[1] == "replay" {
        let t = from_hex(&args[2]);
        match check(&t) {
            Err(w) => { println!("STILL FAILS on the real code: {}\nprogram:\n{}", w, t); std::process::exit(1) }
            Ok(_) => { println!("program passes on the real code"); std::process::exit(0) }
        }
    }
    let seed: u64 = args.get(2).and_then(|s| s.parse().ok()).unwrap_or(1);
    let budget = Duration::from_millis(args.get(3).and_then(|s| s.parse().ok()).unwrap_or(3000));
    let t0 = Instant::now();
    let mut rng = Rng(seed.wrapping_mul(0x9E3779B97F4A7C15) | 1);
    let (mut tried, mut built, mut fcts) = (0u64, 0u64, 0u64);
    while t0.elapsed() < budget || built == 0 && tried < 40 {
        let t = gen_program(&mut rng);
        tried += 1;
        match check(&t) {
            Ok(Some(n)) => { built += 1; fcts += n as u64; }
            Ok(None) => {}
            Err(w) => { println!("{{\"found\":true,\"tried\":{},\"text_hex\":\"{}\",\"what\":{:?}}}", tried, to_hex(&t), w); return; }
        }
    }
    println!("{{\"found\":false,\"tried\":{},\"programs_built\":{},\"functions_named\":{}}}", tried, built, fcts);
}
