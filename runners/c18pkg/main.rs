// Replay runner for the PACKAGE clause of C18 (links the REAL dora-frontend / dora-bytecode of the working tree).
// Not a proof: it executes the contract of the package format on programs the real front end emits:
//   decode(encode(p)) == p (Debug form) and re-encodes to the same bytes; a proper prefix and a file with trailing
//   bytes are refused with Err; a corrupted file never crashes the decoder (checked in a child process, because an
//   abort cannot be caught) and is either refused or decodes to the same program.
use dora_bytecode::{decode_program_from_bytes, read_program_from_file, BytecodeTraitType, BytecodeType, BytecodeTypeArray, Program};
use dora_compiler::wire::{decode_bytecode_type, encode_bytecode_type, ByteBuffer, ByteReader};
use dora_frontend::sema::{Sema, SemaCreationParams};
use dora_frontend::{check_program, emit_program};
use std::sync::Arc;
use std::time::{Duration, Instant};

struct Rng(u64);
impl Rng {
    fn next(&mut self) -> u64 { self.0 ^= self.0 << 13; self.0 ^= self.0 >> 7; self.0 ^= self.0 << 17; self.0 }
    fn below(&mut self, n: usize) -> usize { (self.next() % n as u64) as usize }
}

/// well-typed declarations; `#` is replaced by a fresh number so that names never clash
const ITEMS: [&str; 22] = [
    "fn f#(a: Int64, b: Int64): Int64 { a + b * 2 }",
    "fn g#(x: Bool): Int64 { if x { 1 } else { 0 } }",
    "fn s#(): String { \"hällo 😀 ${1 + 2} end\" }",
    "fn w#(n: Int64): Int64 { let mut i = 0; let mut r = 0; while i < n { r = r + i; i = i + 1; } r }",
    "class C#(pub a: Int64, pub b: String)",
    "class D# { x: Float64, y: Int32 }",
    "struct S#(Int64, Bool)",
    "struct T# { a: UInt8, b: Char }",
    "enum E# { A, B(Int64), C { v: Int64, w: Bool } }",
    "fn m#(e: Option[Int64]): Int64 { match e { Some(x) => x, None => 0 } }",
    "trait R# { fn get(): Int64; }",
    "const K#: Int64 = 1234567890123;",
    "let mut G#: Int64 = 7;",
    "fn id#[T](t: T): T { t }",
    "fn lam#(): Int64 { let f = |x: Int64|: Int64 { x + 1 }; f(41) }",
    "fn arr#(): Int64 { let a = Array[Int64]::new(1, 2, 3); a(0) + a.size() }",
    "fn tup#(): (Int64, Bool) { (1, true) }",
    "fn fl#(): Float64 { 1.5 * 2.25e3 }",
    "fn ch#(): Char { '😀' }",
    "fn big#(): Int64 { 9223372036854775807 }",
    "fn neg#(): Int32 { -2147483648i32 }",
    "mod md# { pub fn inner(): Int64 { 1 } }",
];

fn gen_program(rng: &mut Rng) -> String {
    let n = 1 + rng.below(12);
    let mut s = String::new();
    for k in 0..n {
        let it = ITEMS[rng.below(ITEMS.len())];
        s.push_str(&it.replace('#', &format!("{}", k)));
        s.push('\n');
    }
    s.push_str("fn main() {}\n");
    s
}

fn build(text: &str) -> Option<Program> {
    let mut sa = Sema::new(SemaCreationParams::new().set_program_content(Arc::new(text.to_string())));
    if !check_program(&mut sa) {
        return None;
    }
    Some(emit_program(sa))
}

fn encode(p: &Program) -> Vec<u8> {
    bincode::encode_to_vec(p, bincode::config::standard()).expect("program serialization failed")
}

/// child process: decode the file; exit 0 = refused (Err), 3 = decoded to a program that re-encodes to the reference,
/// 4 = decoded to a DIFFERENT program; anything else (101, signal) = crash
fn child_decode(path: &str, reference: &str) -> i32 {
    let bytes = std::fs::read(path).expect("read");
    let reference = std::fs::read(reference).expect("read");
    match decode_program_from_bytes(&bytes) {
        Err(_) => 0,
        Ok(p) => if encode(&p) == reference { 3 } else { 4 },
    }
}

thread_local! { static WRONG: std::cell::RefCell<(u64, String, String, u64)> = std::cell::RefCell::new((0, String::new(), String::new(), 0)); }

fn check_program_text(text: &str, rng: &mut Rng, scratch: &str) -> Result<bool, String> {
    let seed0 = rng.0;
    let prog = match std::panic::catch_unwind(|| build(text)) {
        Ok(Some(p)) => p,
        Ok(None) => return Ok(false), // the generator produced a program the front end rejects: not a case
        Err(_) => return Ok(false),   // front-end panics are C06's business, not this clause's
    };
    let bytes = encode(&prog);
    let back = match std::panic::catch_unwind(|| decode_program_from_bytes(&bytes)) {
        Ok(Ok(p)) => p,
        Ok(Err(e)) => return Err(format!("a package the compiler wrote is refused: {}", e)),
        Err(_) => return Err("decoding a package the compiler wrote panics".to_string()),
    };
    if format!("{:?}", back) != format!("{:?}", prog) {
        return Err("decoded program differs from the encoded one (Debug form)".to_string());
    }
    let again = encode(&back);
    if again != bytes {
        return Err(format!("decoded program re-encodes to different bytes ({} vs {} bytes)", again.len(), bytes.len()));
    }
    // proper prefixes and trailing bytes are refused
    let mut cuts = vec![0usize, 1, bytes.len() / 2, bytes.len() - 1];
    for _ in 0..6 { cuts.push(rng.below(bytes.len())); }
    for c in cuts {
        match std::panic::catch_unwind(|| decode_program_from_bytes(&bytes[..c]).is_err()) {
            Ok(true) => {}
            Ok(false) => return Err(format!("a package truncated to {} of {} bytes is accepted", c, bytes.len())),
            Err(_) => return Err(format!("decoding a package truncated to {} of {} bytes panics", c, bytes.len())),
        }
    }
    let mut longer = bytes.clone();
    longer.push(0);
    if !matches!(std::panic::catch_unwind(|| decode_program_from_bytes(&longer).is_err()), Ok(true)) {
        return Err("a package with a trailing byte is accepted or panics".to_string());
    }
    // the same through the file entry point the compiler binaries use (read_program_from_file)
    let file_path = format!("{}/pkg.bin", scratch);
    let via_file = |data: &[u8]| -> Result<Option<Vec<u8>>, String> {
        std::fs::write(&file_path, data).map_err(|e| e.to_string())?;
        match std::panic::catch_unwind(|| read_program_from_file(std::path::Path::new(&file_path))) {
            Ok(Ok(p)) => Ok(Some(encode(&p))),
            Ok(Err(_)) => Ok(None),
            Err(_) => Err("read_program_from_file panics".to_string()),
        }
    };
    match via_file(&bytes)? {
        Some(b) if b == bytes => {}
        Some(_) => return Err("a package file the compiler wrote reads back (read_program_from_file) as a different program".to_string()),
        None => return Err("a package file the compiler wrote is refused by read_program_from_file".to_string()),
    }
    if via_file(&longer)?.is_some() { return Err("a package FILE with a trailing byte is accepted by read_program_from_file".to_string()); }
    let mut two = bytes.clone();
    two.extend_from_slice(&bytes);
    if via_file(&two)?.is_some() { return Err("a package FILE followed by a second package is accepted by read_program_from_file".to_string()); }
    for c in [0usize, 1, bytes.len() / 2, bytes.len() - 1] {
        if via_file(&bytes[..c])?.is_some() { return Err(format!("a package FILE truncated to {} of {} bytes is accepted by read_program_from_file", c, bytes.len())); }
    }
    // corrupted files: never a crash (child process: an allocation failure aborts and cannot be caught)
    let ref_path = format!("{}/ref.bin", scratch);
    let cor_path = format!("{}/cor.bin", scratch);
    std::fs::write(&ref_path, &bytes).map_err(|e| e.to_string())?;
    let exe = std::env::current_exe().map_err(|e| e.to_string())?;
    for _ in 0..8 {
        let mut cor = bytes.clone();
        let at = if rng.below(3) == 0 { rng.below(64.min(cor.len())) } else { rng.below(cor.len()) };
        let nv = match rng.below(4) { 0 => 0xff, 1 => 0xfd, 2 => cor[at] ^ (1 << rng.below(8)), _ => cor[at].wrapping_add(1) };
        if nv == cor[at] { continue; }
        cor[at] = nv;
        std::fs::write(&cor_path, &cor).map_err(|e| e.to_string())?;
        let st = std::process::Command::new(&exe).args(["child-decode", &cor_path, &ref_path]).status().map_err(|e| e.to_string())?;
        match st.code() {
            Some(0) | Some(3) => {}
            Some(4) => {
                // no integrity check in the format: recorded (once) and the search goes on, so that crashes are still found
                WRONG.with(|w| {
                    let mut w = w.borrow_mut();
                    w.0 += 1;
                    if w.1.is_empty() { w.1 = format!("byte {} of {} changed from {:#04x} to {:#04x}", at, bytes.len(), bytes[at], nv); w.2 = to_hex(text); w.3 = seed0; }
                });
            }
            other => return Err(format!("decoder crashes on a corrupted package ({:?}): byte {} of {} changed from {:#04x} to {:#04x}", other, at, bytes.len(), bytes[at], nv)),
        }
    }
    Ok(true)
}

// ---- the hand-written type encoding between compiler and runtime (dora-compiler/src/wire.rs): decode(encode(t)) == t ----
fn gen_id(rng: &mut Rng) -> usize {
    match rng.below(6) { 0 => 0, 1 => 1, 2 => 255, 3 => 256, 4 => i32::MAX as usize, _ => (rng.next() % (i32::MAX as u64 + 1)) as usize }
}
fn gen_array(rng: &mut Rng, depth: usize) -> BytecodeTypeArray {
    let n = if depth == 0 { 0 } else { rng.below(4) };
    BytecodeTypeArray::new((0..n).map(|_| gen_type(rng, depth - 1)).collect())
}
fn gen_type(rng: &mut Rng, depth: usize) -> BytecodeType {
    let k = if depth == 0 { rng.below(12) } else { rng.below(19) };
    match k {
        0 => BytecodeType::Unit, 1 => BytecodeType::Bool, 2 => BytecodeType::UInt8, 3 => BytecodeType::Char, 4 => BytecodeType::Int32, 5 => BytecodeType::Int64,
        6 => BytecodeType::Float32, 7 => BytecodeType::Float64, 8 => BytecodeType::Address, 9 => BytecodeType::This, 10 => BytecodeType::Never,
        11 => BytecodeType::TypeParam(gen_id(rng) as u32),
        12 => BytecodeType::Tuple(gen_array(rng, depth)),
        13 => BytecodeType::Enum(gen_id(rng).into(), gen_array(rng, depth)),
        14 => BytecodeType::Struct(gen_id(rng).into(), gen_array(rng, depth)),
        15 => BytecodeType::Class(gen_id(rng).into(), gen_array(rng, depth)),
        16 => BytecodeType::TraitObject(gen_id(rng).into(), gen_array(rng, depth), gen_array(rng, depth)),
        17 => {
            let nb = rng.below(3);
            let trait_ty = BytecodeTraitType { trait_id: gen_id(rng).into(), type_params: gen_array(rng, depth),
                                              bindings: (0..nb).map(|_| (gen_id(rng).into(), gen_type(rng, depth - 1))).collect() };
            BytecodeType::Assoc { ty: Box::new(gen_type(rng, depth - 1)), trait_ty, assoc_id: gen_id(rng).into() }
        }
        _ => BytecodeType::Ref(Box::new(gen_type(rng, depth - 1))),
    }
}
fn check_wire(seed: u64, iter: u64) -> Result<(), String> {
    let mut rng = Rng((seed.wrapping_mul(0x9E3779B97F4A7C15) ^ iter.wrapping_mul(0xD1B54A32D192ED03)) | 1);
    let depth = 1 + rng.below(4);
    let ty = gen_type(&mut rng, depth);
    let r = std::panic::catch_unwind(|| {
        let mut buf = ByteBuffer::new();
        encode_bytecode_type(&ty, &mut buf);
        let mut reader = ByteReader::new(buf.data().to_vec());
        let back = decode_bytecode_type(&mut reader);
        (back, reader.has_more(), buf.data().len())
    });
    match r {
        Err(_) => Err(format!("encoding or decoding the type {:?} panics", ty)),
        Ok((back, more, n)) => {
            if back != ty { return Err(format!("type {:?} reads back as {:?}", ty, back)); }
            if more { return Err(format!("decoding {:?} leaves bytes of its {}-byte encoding unread", ty, n)); }
            Ok(())
        }
    }
}

fn to_hex(s: &str) -> String { s.bytes().map(|b| format!("{:02x}", b)).collect() }
fn from_hex(h: &str) -> String {
    let b: Vec<u8> = (0..h.len() / 2).map(|i| u8::from_str_radix(&h[2 * i..2 * i + 2], 16).unwrap()).collect();
    String::from_utf8(b).unwrap()
}

fn main() {
    let args: Vec<String> = std::env::args().collect();
    if args.len() >= 4 && args[1] == "child-decode" {
        std::process::exit(child_decode(&args[2], &args[3]));
    }
    std::panic::set_hook(Box::new(|_| {}));
    let scratch = std::env::var("VX_SCRATCH").unwrap_or_else(|_| "/var/tmp".to_string());
    if args.len() >= 4 && args[1] == "replay-wire" {
        match check_wire(args[2].parse().unwrap(), args[3].parse().unwrap()) {
            Err(w) => { println!("STILL FAILS on the real code: {}", w); std::process::exit(1) }
            Ok(()) => { println!("case passes on the real code"); std::process::exit(0) }
        }
    }
    if args.len() >= 4 && args[1] == "replay" {
        let t = from_hex(&args[2]);
        let mut rng = Rng(args[3].parse::<u64>().unwrap() | 1);
        match check_program_text(&t, &mut rng, &scratch) {
            Err(w) => { println!("STILL FAILS on the real code: {}", w); std::process::exit(1) }
            Ok(_) => {
                let (n, ex) = WRONG.with(|w| (w.borrow().0, w.borrow().1.clone()));
                if n > 0 { println!("STILL FAILS on the real code: corrupted package decodes to a different program ({})", ex); std::process::exit(1) }
                println!("program passes on the real code"); std::process::exit(0)
            }
        }
    }
    let seed: u64 = args.get(2).and_then(|s| s.parse().ok()).unwrap_or(1);
    let budget = Duration::from_millis(args.get(3).and_then(|s| s.parse().ok()).unwrap_or(3000));
    let t0 = Instant::now();
    let mut rng = Rng(seed.wrapping_mul(0x9E3779B97F4A7C15) | 1);
    let (mut tried, mut built) = (0u64, 0u64);
    // wire.rs round trip: 20 000 generated types first (a few milliseconds)
    for it in 0..20000u64 {
        if let Err(w) = check_wire(seed, it) { println!("{{\"found\":true,\"kind\":\"wire\",\"seed\":{},\"iter\":{},\"text_hex\":\"\",\"rng\":0,\"what\":{:?}}}", seed, it, w); return; }
    }
    while t0.elapsed() < budget || built == 0 && tried < 20 {
        let t = gen_program(&mut rng);
        let rs = rng.next();
        let mut r2 = Rng(rs | 1);
        tried += 1;
        match check_program_text(&t, &mut r2, &scratch) {
            Ok(true) => built += 1,
            Ok(false) => {}
            Err(w) => { println!("{{\"found\":true,\"tried\":{},\"text_hex\":\"{}\",\"rng\":{},\"what\":{:?}}}", tried, to_hex(&t), rs, w); return; }
        }
    }
    let (n, ex, hex, rs) = WRONG.with(|w| w.borrow().clone());
    if n > 0 {
        println!("{{\"found\":true,\"tried\":{},\"programs_built\":{},\"text_hex\":\"{}\",\"rng\":{},\"accepted_wrong_programs\":{},\"what\":\"corrupted package decodes to a different program\",\"example\":{:?}}}", tried, built, hex, rs, n, ex);
        return;
    }
    println!("{{\"found\":false,\"tried\":{},\"programs_built\":{},\"wire_types\":20000}}", tried, built);
}
