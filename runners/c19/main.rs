// Replay runner for C19 (links the REAL dora-symbol crate of the working tree).
// It is not the verification: it (a) searches a concrete failing input when a Verus
// obligation fails, (b) re-runs a recorded input, (c) cross-checks the assumed
// contracts of the N7 wrappers (format!, strip_prefix, from_utf8) on concrete inputs.
mod aot;
use dora_symbol::{demangle_name, mangle_name, mangle_name_with_max_len};
use std::time::{Duration, Instant};

fn ref_hex(v: u8) -> char {
    b"0123456789ABCDEF"[v as usize] as char
}

fn ref_mangle(name: &str) -> String {
    let mut s = String::from("dora_");
    for b in name.bytes() {
        if b.is_ascii_digit() || b.is_ascii_uppercase() || b.is_ascii_lowercase() {
            s.push(b as char);
        } else {
            s.push('_');
            s.push(ref_hex(b >> 4));
            s.push(ref_hex(b & 15));
        }
    }
    s
}

fn ref_fnv(bytes: &[u8]) -> u128 {
    let mut h: u128 = 0x6C62272E07BB014262B821756295C58D;
    for &b in bytes {
        h ^= b as u128;
        h = h.wrapping_mul(0x0000000001000000000000000000013B);
    }
    h
}

fn ref_shorten(name: &str, max_len: usize) -> String {
    let m = ref_mangle(name);
    if m.len() <= max_len {
        return m;
    }
    let h = ref_fnv(m.as_bytes());
    let mut s = String::from(&m[..max_len - 34]);
    s.push_str("_H");
    for i in 0..32 {
        s.push(ref_hex(((h >> (4 * (31 - i))) & 15) as u8));
    }
    s
}

fn sym_ok(s: &str) -> bool {
    s.bytes().all(|b| b.is_ascii_alphanumeric() || b == b'_')
}

const MAX_LENS: [usize; 6] = [34, 39, 40, 64, 200, 201];

/// Returns Some(description) of the first executable C19 clause the input falsifies.
fn check_one(name: &str) -> Option<String> {
    let m = match std::panic::catch_unwind(|| mangle_name(name)) {
        Ok(m) => m,
        Err(_) => return Some("mangle_name panicked".into()),
    };
    if m != ref_mangle(name) {
        return Some(format!("mangle_name result {:?} differs from \"dora_\"+esc_all(bytes) = {:?}", m, ref_mangle(name)));
    }
    if !sym_ok(&m) {
        return Some(format!("mangle_name result {:?} contains a character outside [A-Za-z0-9_]", m));
    }
    match std::panic::catch_unwind(|| demangle_name(&m)) {
        Ok(Some(d)) if d == name => {}
        Ok(other) => return Some(format!("demangle_name(mangle_name(x)) = {:?}, expected Some(x)", other)),
        Err(_) => return Some("demangle_name panicked on a mangled name".into()),
    }
    // the real call-site code of dora-compiler (aot_symbol_name and what it names, cut verbatim)
    match std::panic::catch_unwind(|| aot::vx_aot_symbol_name(name)) {
        Ok(s) => {
            if s.len() > aot::VX_AOT_MAX {
                return Some(format!("aot_symbol_name gives a symbol of length {} > AOT_SYMBOL_MAX_LEN {}", s.len(), aot::VX_AOT_MAX));
            }
            if !sym_ok(&s) {
                return Some(format!("aot_symbol_name gives {:?} with a character outside [A-Za-z0-9_]", s));
            }
            if aot::vx_aot_symbol_name(name) != s {
                return Some("aot_symbol_name is not deterministic".into());
            }
        }
        Err(_) => return Some("aot_symbol_name panicked".into()),
    }
    for &ml in MAX_LENS.iter() {
        let s = match std::panic::catch_unwind(|| mangle_name_with_max_len(name, ml)) {
            Ok(s) => s,
            Err(_) => return Some(format!("mangle_name_with_max_len(_, {}) panicked", ml)),
        };
        if s.len() > ml {
            return Some(format!("shortened symbol has length {} > max_len {}", s.len(), ml));
        }
        if !sym_ok(&s) {
            return Some(format!("shortened symbol {:?} contains a character outside [A-Za-z0-9_]", s));
        }
        let want = ref_shorten(name, ml);
        if s != want {
            return Some(format!("mangle_name_with_max_len(_, {}) = {:?}, contract says {:?}", ml, s, want));
        }
        let again = mangle_name_with_max_len(name, ml);
        if again != s {
            return Some("mangle_name_with_max_len is not deterministic".into());
        }
    }
    None
}

/// two distinct names must get distinct symbols (unshortened), and a shortened symbol
/// must never equal an unshortened one.
fn check_pair(a: &str, b: &str) -> Option<String> {
    if a == b {
        return None;
    }
    if mangle_name(a) == mangle_name(b) {
        return Some(format!("distinct names collide: mangle_name = {:?}", mangle_name(a)));
    }
    if aot::vx_aot_symbol_name(a) == aot::vx_aot_symbol_name(b) {
        return Some(format!("distinct names get the same aot_symbol_name {:?}", aot::vx_aot_symbol_name(a)));
    }
    for &ml in MAX_LENS.iter() {
        if ml < 39 {
            continue;
        }
        let sa = mangle_name_with_max_len(a, ml);
        let ma = mangle_name(a);
        let sb = mangle_name_with_max_len(b, ml);
        if sa != ma && sa == mangle_name(b) {
            return Some(format!("shortened symbol of one name equals the unshortened symbol of another (max_len {})", ml));
        }
        // same kept prefix + different full symbols => the hash must make them differ
        if sa != ma && sb != mangle_name(b) && sa == sb {
            return Some(format!("two distinct over-long names shorten to the same symbol {:?} (max_len {})", sa, ml));
        }
    }
    None
}

struct Rng(u64);
impl Rng {
    fn next(&mut self) -> u64 {
        self.0 ^= self.0 << 13;
        self.0 ^= self.0 >> 7;
        self.0 ^= self.0 << 17;
        self.0
    }
    fn below(&mut self, n: usize) -> usize {
        (self.next() % n as u64) as usize
    }
}

fn alphabet() -> Vec<char> {
    let mut v: Vec<char> = (0u8..128).map(|b| b as char).collect();
    for c in ['\u{80}', 'é', 'ÿ', '\u{7ff}', '\u{800}', '☃', '\u{ffff}', '\u{10000}', '😀', '\u{10ffff}'] {
        v.push(c);
    }
    v
}

fn to_hex(s: &str) -> String {
    s.bytes().map(|b| format!("{:02x}", b)).collect()
}

fn from_hex(h: &str) -> String {
    let bytes: Vec<u8> = (0..h.len() / 2).map(|i| u8::from_str_radix(&h[2 * i..2 * i + 2], 16).unwrap()).collect();
    String::from_utf8(bytes).expect("replay input is not UTF-8")
}

fn report(found: Option<(String, Option<String>, String)>, tried: u64, distinct: u64) {
    match found {
        Some((a, b, what)) => {
            println!(
                "{{\"found\":true,\"tried\":{},\"distinct\":{},\"name_hex\":\"{}\",\"name2_hex\":{},\"what\":{:?}}}",
                tried,
                distinct,
                to_hex(&a),
                match b { Some(b) => format!("\"{}\"", to_hex(&b)), None => "null".into() },
                what
            );
        }
        None => println!("{{\"found\":false,\"tried\":{},\"distinct\":{}}}", tried, distinct),
    }
}

fn main() {
    std::panic::set_hook(Box::new(|_| {}));
    let args: Vec<String> = std::env::args().collect();
    if args.len() >= 3 && args[1] == "replay" {
        let a = from_hex(&args[2]);
        let r = if args.len() >= 4 && args[3] != "null" {
            let b = from_hex(&args[3]);
            check_pair(&a, &b).or_else(|| check_one(&a)).or_else(|| check_one(&b))
        } else {
            check_one(&a)
        };
        match r {
            Some(w) => {
                println!("STILL FAILS on the real code: {}", w);
                std::process::exit(1);
            }
            None => {
                println!("input passes on the real code");
                std::process::exit(0);
            }
        }
    }
    let seed: u64 = args.get(2).and_then(|s| s.parse().ok()).unwrap_or(1);
    let budget = Duration::from_millis(args.get(3).and_then(|s| s.parse().ok()).unwrap_or(3000));
    let t0 = Instant::now();
    let al = alphabet();
    let mut tried = 0u64;
    let mut distinct = 0u64;
    // exhaustive: every string of length <= 2 over the alphabet
    let mut all: Vec<String> = vec![String::new()];
    for &c in &al {
        all.push(c.to_string());
    }
    for &c in &al {
        for &d in &al {
            let mut s = String::new();
            s.push(c);
            s.push(d);
            all.push(s);
        }
    }
    for s in &all {
        tried += 1;
        distinct += 1;
        if let Some(w) = check_one(s) {
            return report(Some((s.clone(), None, w)), tried, distinct);
        }
    }
    // pairs that differ only in characters that need escaping / in escape look-alikes
    let tricky = ["a_b", "a_5Fb", "a:b", "a_3Ab", "a__b", "_", "_5F", "__", "5F", "a_3a", "a_3A", "A", "a", "dora_", "H", "_H"];
    for a in tricky.iter() {
        for b in tricky.iter() {
            tried += 1;
            if let Some(w) = check_pair(a, b) {
                return report(Some((a.to_string(), Some(b.to_string()), w)), tried, distinct);
            }
        }
    }
    // seeded: long names with long common prefixes, around the length limits
    let mut rng = Rng(seed.wrapping_mul(0x9E3779B97F4A7C15) | 1);
    let seps = ["::", "[", "]", ", ", "<", ">", "#", " for ", "(", ")", ": ", "_", "$", ".", "☃", "é"];
    while t0.elapsed() < budget {
        let mut base = String::new();
        let target = [10usize, 30, 60, 150, 190, 195, 196, 197, 200, 260, 400][rng.below(11)];
        while base.len() < target {
            match rng.below(4) {
                0 => base.push_str(seps[rng.below(seps.len())]),
                1 => base.push(al[rng.below(al.len())]),
                _ => base.push((b'a' + rng.below(26) as u8) as char),
            }
        }
        if rng.below(3) == 0 {
            base.push_str("$runtime_entry");
        }
        let mut other = base.clone();
        match rng.below(4) {
            0 => other.push_str("other"),
            1 => other.push(al[rng.below(al.len())]),
            2 => {
                other.pop();
                other.push('Z');
            }
            _ => other.insert(rng.below(1 + other.chars().count().min(3)).min(other.len()).min(0), 'q'),
        }
        tried += 2;
        distinct += 2;
        if let Some(w) = check_one(&base) {
            return report(Some((base, None, w)), tried, distinct);
        }
        if let Some(w) = check_one(&other) {
            return report(Some((other, None, w)), tried, distinct);
        }
        if let Some(w) = check_pair(&base, &other) {
            return report(Some((base, Some(other), w)), tried, distinct);
        }
    }
    report(None, tried, distinct);
}
