// Replay runner for C16 (links the REAL dora-parser of the working tree): parses generated texts and
// checks that the green tree reproduces the text byte for byte, node lengths add up, error spans lie
// inside the text, and nothing panics. Finds concrete failing inputs for failed Verus obligations.
use dora_parser::ast::{SyntaxElement, SyntaxNode};
use dora_parser::{compute_line_column, compute_line_starts, lex, GreenElement, GreenNode, Parser, TokenKind};
use std::sync::Arc;
use std::time::{Duration, Instant};

struct Rng(u64);
impl Rng {
    fn next(&mut self) -> u64 { self.0 ^= self.0 << 13; self.0 ^= self.0 >> 7; self.0 ^= self.0 << 17; self.0 }
    fn below(&mut self, n: usize) -> usize { (self.next() % n as u64) as usize }
}

const ATOMS: [&str; 131] = [
    "fn", "f", "(", ")", "{", "}", "[", "]", "let", "x", "=", "1", ";", ":", "Int64", ",", "class", "struct", "enum", "trait", "impl",
    "if", "else", "while", "for", "in", "return", "match", "=>", "->", "::", ".", "+", "-", "*", "\"s\"", "\"a${x}b\"", "'c'", "1.5", "true",
    " ", "  ", "\n", "\r\n", "\r", "\t", "// c\n", "// c", "/* c */", "/* a\nb */", "/* unterminated", "\n\n", " \n \n", "pub", "mod", "use", "@", "é", "😀", "#",
    // the rest of the keywords and operators
    "self", "Self", "package", "super", "break", "continue", "ref", "mut", "extern", "const", "static", "mutating", "as", "is", "type", "where", "false", "_",
    "<", ">", "<=", ">=", "==", "!=", "===", "!==", "!", "&&", "||", "&", "|", "^", "<<", ">>", ">>>", "/", "%", "+=", "-=", "*=", "/=", "%=", "|=", "&=", "^=", "<<=", ">>=", ">>>=", "..", "...", "..=", "|x|",
    // literal shapes
    "0x1F", "0b101", "1_000", "1i32", "2.5e-3", "1e", "0x", "'\\n'", "'", "\"unterminated", "\"a${", "}\"", "\"${1}${2}\"",
    // characters an editor or a tool may put into a file
    "\u{feff}", "\u{a0}", "\u{85}", "\u{2028}", "\u{0}", "\u{200b}",
];

fn gen_text(rng: &mut Rng, n: usize) -> String {
    let mut s = String::new();
    for _ in 0..n {
        s.push_str(ATOMS[rng.below(ATOMS.len())]);
        if rng.below(3) == 0 { s.push(' '); }
    }
    s
}

/// well-formed snippets that reach the deeper parser paths; `gen_mutant` damages them token-wise
const SNIPPETS: [&str; 40] = [
    "fn f(a: Int64, b: Int64): Int64 { a + b * 2 }", "fn g[T: A + B](x: T): T where T: C { x }", "class C(pub a: Int64, b: String)", "class D[T] { x: T, y: Int32 }",
    "struct S(Int64, Bool)", "struct T { a: UInt8, b: Char }", "enum E { A, B(Int64), C { v: Int64, w: Bool } }", "trait R { fn get(): Int64; type X; const K: Int64; }",
    "impl R for C { fn get(): Int64 { 1 } type X = Int64; }", "impl[T] D[T] { static fn make(): D[T] { D[T](x = 1) } }", "mod m { pub fn inner(): Int64 { 1 } mod n { fn deep() {} } }",
    "const K: Int64 = 1234567890123;", "let mut G: Int64 = 7;", "type Alias[T] = Vec[T];", "use std::collections::{HashMap, Vec as V};", "use package::a::b;", "extern \"C\" fn ext(a: Int32): Int32;",
    "@Test @Optimize fn annotated() {}", "fn m(e: Option[Int64]): Int64 { match e { Some(x) if x > 0 => x, Some(_) | None => 0 } }",
    "fn l(): Int64 { let f = |x: Int64, y|: Int64 { x + y }; f(1, 2) }", "fn w(n: Int64) { let mut i = 0; while i < n { i += 1; if i == 3 { continue; } else if i > 9 { break; } } }",
    "fn fo(v: Vec[Int64]) { for (i, x) in v.enumerate() { println(\"${i}: ${x + 1} }\"); } }", "fn t(): (Int64, Bool) { let (a, b) = (1, true); (a, b) }",
    "fn p(s: S) { let S(a, _) = s; let T { a: q, .. } = t; }", "fn c(x: Int64): Bool { x is Some(y) && y as Int32 == 1i32 }", "fn q(a: [T as Tr]::X, b: ref T, c: (Int64) -> Bool) {}",
    "fn idx(a: Array[Int64]): Int64 { a(0) + a[1] + a.b.c(2).d[T]::e() }", "fn ops(a: Int64): Int64 { -a + !a * (a << 2 >> 1 >>> 3) % 5 / 6 & 7 | 8 ^ 9 }",
    "fn cmp(a: Int64): Bool { a == 1 || a != 2 && a < 3 || a <= 4 || a > 5 || a >= 6 || a === a || a !== a }", "fn asg() { a = 1; a.b = 2; a(0) = 3; a += 1; a -= 1; a *= 2; a /= 2; a %= 2; a |= 1; a &= 1; a ^= 1; a <<= 1; a >>= 1; a >>>= 1; }",
    "fn lit() { 0x1F; 0b101; 1_000; 1i32; 2.5e-3; 'c'; '\\n'; \"s\"; \"a${x}b${y}c\"; true; false; self; Self::X; }", "fn blk(): Int64 { { let x = { 1 }; x } }", "fn ret(): Int64 { return 1; }",
    "fn ife(): Int64 { if a { 1 } else if b { 2 } else { 3 } }", "fn path() { a::b::c(); Vec[Int64]::new(); [T as I]::f(); }", "fn tmpl(): String { \"${ \"${1}\" }${ { 2 } }\" }",
    "// line comment\nfn after_comment() {} /* block */", "fn generic_call() { f[Int64, Vec[Bool]](1); x.m[T](); }", "pub static mutating fn mods() {}", "fn dots() { a..b; a..=b; f(xs...); }",
];
fn gen_mutant(rng: &mut Rng) -> String {
    let k = 1 + rng.below(4);
    let mut text = String::new();
    for _ in 0..k { text.push_str(SNIPPETS[rng.below(SNIPPETS.len())]); text.push_str(if rng.below(2) == 0 { "\n" } else { " " }); }
    // token boundaries by the real lexer
    let lexed = lex(&text);
    let mut toks: Vec<String> = Vec::new();
    for (i, &s) in lexed.starts.iter().enumerate() {
        let e = if i + 1 < lexed.starts.len() { lexed.starts[i + 1] as usize } else { text.len() };
        toks.push(text[s as usize..e].to_string());
    }
    let nm = rng.below(4);
    for _ in 0..nm {
        if toks.is_empty() { break; }
        let i = rng.below(toks.len());
        match rng.below(5) {
            0 => { toks.remove(i); }
            1 => { let t = toks[i].clone(); toks.insert(i, t); }
            2 => { let j = rng.below(toks.len()); toks.swap(i, j); }
            3 => { toks[i] = ATOMS[rng.below(ATOMS.len())].to_string(); }
            _ => { toks.truncate(i); }
        }
    }
    toks.concat()
}

fn check_lengths(node: &GreenNode) -> Result<u32, String> {
    let mut sum = 0u32;
    for ch in node.children() {
        match ch {
            GreenElement::Token(t) => sum += t.text.len() as u32,
            GreenElement::Node(n) => sum += check_lengths(n)?,
        }
    }
    if sum != node.text_length() {
        return Err(format!("node {:?} has length {} but its children sum to {}", node.syntax_kind(), node.text_length(), sum));
    }
    Ok(sum)
}

/// red tree: node and token spans tile the file without gap or overlap (children start where the previous sibling
/// ended, the first at the parent's start, the last ends at the parent's end); the text of every token is the slice
/// of the source at its span
fn check_tiling(node: &SyntaxNode, text: &str) -> Result<(), String> {
    let fs = node.full_span();
    let mut at = fs.start();
    for el in node.children_with_tokens() {
        let sp = match &el { SyntaxElement::Node(n) => n.full_span(), SyntaxElement::Token(t) => t.span() };
        if sp.start() != at {
            return Err(format!("child of {:?} starts at {} but its predecessor ended at {}", node.green().syntax_kind(), sp.start(), at));
        }
        match &el {
            SyntaxElement::Node(n) => check_tiling(n, text)?,
            SyntaxElement::Token(t) => {
                let (a, b) = (sp.start() as usize, sp.end() as usize);
                if b > text.len() || !text.is_char_boundary(a) || !text.is_char_boundary(b) || &text[a..b] != t.text() {
                    return Err(format!("token at {}..{} has text {:?} which is not the source slice", a, b, t.text()));
                }
            }
        }
        at = sp.end();
    }
    if at != fs.end() {
        return Err(format!("children of {:?} end at {} but the node ends at {}", node.green().syntax_kind(), at, fs.end()));
    }
    Ok(())
}

/// line/column computation (lib.rs): line starts after LF, CRLF and lone CR; (line, column) of every offset are 1-based, column in bytes
fn check_line_column(text: &str) -> Result<(), String> {
    let ls = compute_line_starts(text);
    let b = text.as_bytes();
    let mut want: Vec<u32> = vec![0];
    let mut i = 0;
    while i < b.len() {
        if b[i] == b'\n' { want.push(i as u32 + 1); }
        else if b[i] == b'\r' { if i + 1 < b.len() && b[i + 1] == b'\n' { i += 1; } want.push(i as u32 + 1); }
        i += 1;
    }
    if ls != want { return Err(format!("compute_line_starts = {:?}, the lines of the text start at {:?}", ls, want)); }
    for off in 0..=text.len() as u32 {
        let (line, col) = compute_line_column(&ls, off);
        let k = want.iter().rposition(|&s| s <= off).unwrap();
        if line != k as u32 + 1 || col != off - want[k] + 1 {
            return Err(format!("compute_line_column(offset {}) = ({}, {}), expected ({}, {})", off, line, col, k + 1, off - want[k] + 1));
        }
    }
    Ok(())
}

fn check_text(text: &str) -> Option<String> {
    if text.len() < 400 {
        match std::panic::catch_unwind(|| check_line_column(text)) {
            Ok(Ok(())) => {}
            Ok(Err(e)) => return Some(e),
            Err(_) => return Some("panic in compute_line_starts / compute_line_column".to_string()),
        }
    }
    let owned = Arc::new(text.to_string());
    let r = std::panic::catch_unwind(|| {
        let lexed = lex(text);
        // lexer partitions the text
        if lexed.tokens.last() != Some(&TokenKind::EOF) { return Err("lexer: token list does not end with EOF".to_string()); }
        if lexed.tokens.len() != lexed.starts.len() + 1 { return Err("lexer: tokens/starts length mismatch".to_string()); }
        let mut prev = 0u32;
        for (i, &s) in lexed.starts.iter().enumerate() {
            if i == 0 && s != 0 { return Err("lexer: first token does not start at 0".to_string()); }
            if i > 0 && s <= prev { return Err(format!("lexer: token {} starts at {} not after {}", i, s, prev)); }
            prev = s;
        }
        let ntokens = lexed.starts.len();
        let (file, errors) = Parser::from_shared_string(owned.clone()).parse();
        let root = file.root();
        let green = root.green();
        let back = green.to_string();
        if back != text {
            return Err(format!("tree text differs from the source: {:?}", back));
        }
        if green.text_length() as usize != text.len() { return Err("root length differs from the text length".to_string()); }
        check_lengths(green)?;
        if root.full_span().start() != 0 || root.full_span().end() as usize != text.len() { return Err("root span is not the whole text".to_string()); }
        check_tiling(&root, text)?;
        // every lexed token appears exactly once in the tree
        fn count(n: &GreenNode) -> usize { n.children().iter().map(|c| match c { GreenElement::Token(_) => 1, GreenElement::Node(n) => count(n) }).sum() }
        let c = count(green);
        if c != ntokens { return Err(format!("{} tokens lexed, {} tokens in the tree", ntokens, c)); }
        for e in errors.iter() {
            if e.span.end() as usize > text.len() { return Err(format!("error span {}..{} outside the text", e.span.start(), e.span.end())); }
        }
        Ok(errors.len())
    });
    match r {
        Ok(Ok(nerr)) => {
            // text that parses without errors yields the same tree text when parsed again (idempotent by construction here)
            let _ = nerr;
            None
        }
        Ok(Err(e)) => Some(e),
        Err(_) => Some("panic while lexing/parsing/building the tree".into()),
    }
}

fn to_hex(s: &str) -> String { s.bytes().map(|b| format!("{:02x}", b)).collect() }
fn from_hex(h: &str) -> String {
    let b: Vec<u8> = (0..h.len() / 2).map(|i| u8::from_str_radix(&h[2 * i..2 * i + 2], 16).unwrap()).collect();
    String::from_utf8(b).unwrap()
}

fn main() {
    if std::env::var("VX_BACKTRACE").is_err() { std::panic::set_hook(Box::new(|_| {})); }
    let args: Vec<String> = std::env::args().collect();
    if args.len() >= 3 && args[1] == "replay" {
        let t = from_hex(&args[2]);
        match check_text(&t) {
            Some(w) => { println!("STILL FAILS on the real code: text {:?}: {}", t, w); std::process::exit(1) }
            None => { println!("text passes on the real code"); std::process::exit(0) }
        }
    }
    let seed: u64 = args.get(2).and_then(|s| s.parse().ok()).unwrap_or(1);
    let budget = Duration::from_millis(args.get(3).and_then(|s| s.parse().ok()).unwrap_or(3000));
    let t0 = Instant::now();
    let mut tried = 0u64;
    // exhaustive: all sequences of <= 3 atoms over the trivia-heavy part of the alphabet
    let small = ["fn f() {}", "x", "{", "}", " ", "\n", "\r\n", "// c\n", "// c", "/* c */", "/* a\nb */", "\n\n", "let x = 1;", "@", "\u{feff}"];
    let mut frontier = vec![String::new()];
    let mut all = vec![String::new()];
    for _ in 0..3 {
        let mut nf = Vec::new();
        for p in &frontier { for a in small.iter() { let mut s = p.clone(); s.push_str(a); nf.push(s); } }
        all.extend(nf.iter().cloned());
        frontier = nf;
    }
    for t in &all {
        tried += 1;
        if let Some(w) = check_text(t) { println!("{{\"found\":true,\"tried\":{},\"text_hex\":\"{}\",\"what\":{:?}}}", tried, to_hex(t), w); return; }
    }
    // long trivia runs (counter widths: more than 2^16 trivia tokens flushed in one batch)
    let stress: Vec<String> = vec![
        format!("{}fn f() {{}}", "\n".repeat(70000)),
        format!("fn f() {{}}{}fn g() {{}}", "\n".repeat(70000)),
        format!("fn f() {{}}\n{}", "  // c\n".repeat(25000)),
        format!("fn f() {{ {} }}", "/* c */ ".repeat(40000)),
        format!("fn f() {{}}{}", "\r\n".repeat(66000)),
    ];
    for t in &stress {
        tried += 1;
        if let Some(w) = check_text(t) { println!("{{\"found\":true,\"tried\":{},\"text_hex\":\"{}\",\"what\":{:?}}}", tried, to_hex(t), w); return; }
    }
    let mut rng = Rng(seed.wrapping_mul(0x9E3779B97F4A7C15) | 1);
    // corpus: the repository's own sources given on the command line
    for path in args.iter().skip(4) {
        if let Ok(t) = std::fs::read_to_string(path) {
            tried += 1;
            if let Some(w) = check_text(&t) { println!("{{\"found\":true,\"tried\":{},\"text_hex\":\"{}\",\"what\":{:?}}}", tried, to_hex(&t), w); return; }
        }
    }
    while t0.elapsed() < budget {
        let n = [1usize, 3, 8, 20, 60, 200][rng.below(6)];
        let t = if tried % 2 == 0 { gen_mutant(&mut rng) } else { gen_text(&mut rng, n) };
        tried += 1;
        if let Some(w) = check_text(&t) { println!("{{\"found\":true,\"tried\":{},\"text_hex\":\"{}\",\"what\":{:?}}}", tried, to_hex(&t), w); return; }
    }
    println!("{{\"found\":false,\"tried\":{},\"exhaustive_small\":{}}}", tried, all.len());
}
