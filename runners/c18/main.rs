// Replay runner for C18 (links the REAL dora-bytecode crate of the working tree).
// Writes random instruction sequences through the public BytecodeWriter API, reads them back with
// BytecodeReader and compares instruction by instruction (operands on both sides of every varint
// boundary, forward/backward jumps, constant-pool indices). Not the verification: it finds concrete
// failing inputs for failed obligations and replays them.
mod gen;
use dora_bytecode::*;
use gen::*;
use std::time::{Duration, Instant};

pub struct Draw(pub u64);
impl Draw {
    fn next(&mut self) -> u64 {
        self.0 ^= self.0 << 13;
        self.0 ^= self.0 >> 7;
        self.0 ^= self.0 << 17;
        self.0
    }
    pub fn val(&mut self) -> u32 {
        const B: [u32; 16] = [0, 1, 127, 128, 129, 255, 256, 16383, 16384, 65535, 65536, 2097151, 2097152, 268435455, 268435456, u32::MAX];
        let r = self.next();
        if r % 4 == 0 { (r >> 8) as u32 } else { B[((r >> 8) % 16) as usize] }
    }
    pub fn count(&mut self) -> usize {
        let r = self.next();
        match r % 8 { 0 => 0, 1 => 1, 2 => 127, 3 => 128, 4 => 130, _ => ((r >> 8) % 6) as usize }
    }
}

#[derive(Debug)]
struct Case { rows: Vec<usize>, what: String }

fn run_case(seed: u64, iter: u64) -> Result<(usize, usize), String> {
    let mut d = Draw((seed.wrapping_mul(0x9E3779B97F4A7C15) ^ iter.wrapping_mul(0xD1B54A32D192ED03)) | 1);
    let mut w = BytecodeWriter::new();
    let n = match d.next() % 64 { 0 => 6000, 1..=7 => 1, 8..=15 => 2, 16..=23 => 400, _ => 3 + (d.next() % 40) as usize };
    let mut exps: Vec<Exp> = Vec::new();
    // label bookkeeping by instruction index
    let mut bound_at: Vec<(Label, usize)> = Vec::new(); // label bound before instruction #idx
    let mut pending: Vec<(Label, usize)> = Vec::new(); // forward labels to bind before instruction #idx
    let mut pool = 0u64;
    let mut tables: Vec<(usize, ConstPoolIdx, Vec<Label>, Label)> = Vec::new();
    for idx in 0..n {
        // bind forward labels due here
        let mut k = 0;
        while k < pending.len() {
            if pending[k].1 <= idx {
                w.bind_label(pending[k].0);
                bound_at.push((pending[k].0, idx));
                pending.remove(k);
            } else {
                k += 1;
            }
        }
        let back = w.define_label();
        bound_at.push((back, idx));
        let fwd = w.create_label();
        // now and then a jump table over labels bound earlier and labels still to be bound (Switch targets live in the constant pool)
        if d.next() % 16 == 0 {
            let nt = (d.next() % 5) as usize;
            let mut targets = Vec::new();
            for _ in 0..nt + 1 {
                if d.next() % 2 == 0 && !bound_at.is_empty() {
                    targets.push(bound_at[(d.next() % bound_at.len() as u64) as usize].0);
                } else {
                    let l = w.create_label();
                    pending.push((l, idx + 1 + (d.next() % 7) as usize));
                    targets.push(l);
                }
            }
            let default = targets.pop().unwrap();
            let cidx = w.add_const_jump_table(targets.clone(), default);
            tables.push((idx, cidx, targets, default));
        }
        let row = (d.next() % NROWS as u64) as usize;
        w.set_location(Location::new(1 + idx as u32, 1));
        let e = emit_row(row, &mut w, &mut d, fwd, back);
        match &e {
            Exp::Fwd(_, _, l) => pending.push((*l, idx + 1 + (d.next() % 5) as usize)),
            Exp::NewConst(..) => {}
            _ => {}
        }
        exps.push(e);
    }
    for (l, _) in pending.iter() {
        w.bind_label(*l);
        bound_at.push((*l, n));
    }
    let body = w.generate();
    let code = body.code();
    let got: Vec<(usize, BytecodeOpcode, BytecodeInstruction)> = BytecodeReader::new(code).collect();
    if got.len() != n {
        return Err(format!("wrote {} instructions, read back {}", n, got.len()));
    }
    // the same code through the visitor interface (what the compilers consume): read() -> dispatch_instruction -> callbacks
    let mut rec = Rec::default();
    read(code, &mut rec);
    if rec.log.len() != n || rec.offs.len() != n {
        return Err(format!("wrote {} instructions, the visitor saw {} callbacks / {} offsets", n, rec.log.len(), rec.offs.len()));
    }
    let start_of = |idx: usize| -> usize { if idx < n { got[idx].0 } else { code.len() } };
    let label_idx = |l: &Label| -> usize { bound_at.iter().find(|(x, _)| x == l).map(|(_, i)| *i).unwrap() };
    let mut ti = 0usize;
    for idx in 0..n {
        // jump tables added before instruction #idx took constant-pool slots
        while ti < tables.len() && tables[ti].0 <= idx {
            if tables[ti].1 .0 as u64 != pool {
                return Err(format!("jump table added before instruction #{} got constant-pool index {} instead of {}", idx, tables[ti].1 .0, pool));
            }
            pool += 1;
            ti += 1;
        }
        let (name, vals) = wire_of(&got[idx].2);
        let (ename, evals): (&str, Vec<u64>) = match &exps[idx] {
            Exp::Plain(nm, v) => (*nm, v.clone()),
            Exp::NewConst(nm, v) => {
                let mut v = v.clone();
                v.push(pool);
                pool += 1;
                (*nm, v)
            }
            Exp::Fwd(nm, v, l) => {
                let mut v = v.clone();
                v.push((start_of(label_idx(l)) - start_of(idx)) as u64);
                (*nm, v)
            }
            Exp::Back(nm, l) => (*nm, vec![(start_of(idx) - start_of(label_idx(l))) as u64]),
        };
        if name != ename || vals != evals {
            return Err(format!("instruction #{} written as {} {:?} reads back as {} {:?}", idx, ename, evals, name, vals));
        }
        if rec.log[idx].0 != ename || rec.log[idx].1 != evals || rec.offs[idx] as usize != got[idx].0 {
            return Err(format!("instruction #{} written as {} {:?} reaches the visitor as {} {:?} at offset {} (reader: offset {})",
                               idx, ename, evals, rec.log[idx].0, rec.log[idx].1, rec.offs[idx], got[idx].0));
        }
        let opb: u8 = got[idx].1.into();
        if BytecodeOpcode::try_from(opb).ok().map(|o| { let b: u8 = o.into(); b }) != Some(opb) {
            return Err(format!("opcode byte {} does not convert back", opb));
        }
    }
    for (at, cidx, targets, default) in tables.iter() {
        match body.const_pool(*cidx) {
            ConstPoolEntry::JumpTable { targets: got_t, default_target } => {
                let want: Vec<u32> = targets.iter().map(|l| start_of(label_idx(l)) as u32).collect();
                let want_d = start_of(label_idx(default)) as u32;
                if *got_t != want || *default_target != want_d {
                    return Err(format!("jump table added before instruction #{}: targets {:?} default {} but the labels are bound at {:?} / {}", at, got_t, default_target, want, want_d));
                }
            }
            _ => return Err(format!("constant-pool entry {} of a jump table is not a JumpTable after generate()", cidx.0)),
        }
    }
    Ok((n, code.len()))
}

fn main() {
    std::panic::set_hook(Box::new(|_| {}));
    let args: Vec<String> = std::env::args().collect();
    if args.len() >= 4 && args[1] == "replay" {
        let seed: u64 = args[2].parse().unwrap();
        let iter: u64 = args[3].parse().unwrap();
        match std::panic::catch_unwind(|| run_case(seed, iter)) {
            Ok(Ok(_)) => { println!("case passes on the real code"); std::process::exit(0) }
            Ok(Err(e)) => { println!("STILL FAILS on the real code: {}", e); std::process::exit(1) }
            Err(_) => { println!("STILL FAILS on the real code: panic while writing/reading a sequence the writer produced"); std::process::exit(1) }
        }
    }
    let seed: u64 = args.get(2).and_then(|s| s.parse().ok()).unwrap_or(1);
    let budget = Duration::from_millis(args.get(3).and_then(|s| s.parse().ok()).unwrap_or(3000));
    let t0 = Instant::now();
    let mut iter = 0u64;
    let mut insts = 0u64;
    while t0.elapsed() < budget {
        match std::panic::catch_unwind(|| run_case(seed, iter)) {
            Ok(Ok((n, _))) => insts += n as u64,
            Ok(Err(e)) => { println!("{{\"found\":true,\"seed\":{},\"iter\":{},\"tried\":{},\"what\":{:?}}}", seed, iter, iter + 1, e); return; }
            Err(_) => { println!("{{\"found\":true,\"seed\":{},\"iter\":{},\"tried\":{},\"what\":\"panic while writing/reading back a sequence the writer produced\"}}", seed, iter, iter + 1); return; }
        }
        iter += 1;
    }
    println!("{{\"found\":false,\"tried\":{},\"instructions\":{}}}", iter, insts);
}
