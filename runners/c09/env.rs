// Environment stubs for the extracted ObjectHashMap: the runtime's GC epoch and root slots.
// `Address` itself is cut from dora-runtime/src/gc.rs (see address.rs, generated).
use std::sync::atomic::{AtomicUsize, Ordering};
pub use crate::address::Address;

pub static EPOCH: AtomicUsize = AtomicUsize::new(0);
pub struct Rt;
impl Rt {
    pub fn gc_epoch(&self) -> usize { EPOCH.load(Ordering::SeqCst) }
}
static RT: Rt = Rt;
pub fn get_runtime() -> &'static Rt { &RT }

/// a root slot: the address of a key field inside the table (what the GC updates when it moves the object)
pub struct Slot(pub Address);
impl Slot {
    pub fn at(a: Address) -> Slot { Slot(a) }
}
