// ---- driver (appended to the extracted ObjectHashMap code so that it can call its private methods) ----
use std::collections::HashMap;

pub struct Rng(pub u64);
impl Rng {
    pub fn next(&mut self) -> u64 { self.0 ^= self.0 << 13; self.0 ^= self.0 >> 7; self.0 ^= self.0 << 17; self.0 }
    pub fn below(&mut self, n: usize) -> usize { (self.next() % n as u64) as usize }
}

#[derive(Clone, Debug)]
pub enum Op { Insert(usize, u64), Remove(usize), Get(usize), MoveAll(usize) }

/// Runs the op sequence against the real table and a HashMap model; Err(description) on divergence.
pub fn run_ops(ops: &[Op]) -> Result<(), String> {
    crate::env::EPOCH.store(0, std::sync::atomic::Ordering::SeqCst);
    let mut m: ObjectHashMap<u64> = ObjectHashMap::new();
    let mut model: HashMap<usize, u64> = HashMap::new();
    let mut used = false;
    for (i, op) in ops.iter().enumerate() {
        match *op {
            Op::Insert(k, v) => { m.insert(Address::from(k), v); model.insert(k, v); used = true; }
            Op::Remove(k) => {
                if !used { continue; } // caller-history precondition: remove is only reached after an enqueue
                let r = m.remove(Address::from(k));
                let e = model.remove(&k);
                if r != e { return Err(format!("op #{} remove({:#x}) = {:?}, map semantics say {:?}", i, k, r, e)); }
            }
            Op::Get(k) => {
                let r = m.get(Address::from(k)).cloned();
                let e = model.get(&k).cloned();
                if r != e { return Err(format!("op #{} get({:#x}) = {:?}, map semantics say {:?}", i, k, r, e)); }
            }
            Op::MoveAll(delta) => {
                // a moving collection: every live key is updated in place through its root slot, then the epoch changes
                let mut slots: Vec<Slot> = Vec::new();
                m.visit_roots(|s| slots.push(s));
                if slots.len() != model.len() { return Err(format!("op #{} visit_roots reported {} slots for {} entries", i, slots.len(), model.len())); }
                let mut nm = HashMap::new();
                for s in slots {
                    let p = s.0.to_usize() as *mut usize;
                    let old = unsafe { *p };
                    let v = match model.get(&old) { Some(v) => *v, None => return Err(format!("op #{} visit_roots slot holds {:#x} which is not a key", i, old)) };
                    unsafe { *p = old + delta; }
                    nm.insert(old + delta, v);
                }
                model = nm;
                crate::env::EPOCH.fetch_add(1, std::sync::atomic::Ordering::SeqCst);
            }
        }
        // after every operation: every model key is found
        if i + 1 == ops.len() || (i % 7 == 0) {
            let keys: Vec<usize> = model.keys().cloned().collect();
            for k in keys {
                let r = m.get(Address::from(k)).cloned();
                if r != model.get(&k).cloned() { return Err(format!("after op #{}: get({:#x}) = {:?}, expected {:?}", i, k, r, model.get(&k))); }
            }
        }
    }
    Ok(())
}

pub fn gen_ops(rng: &mut Rng, n: usize, with_gc: bool) -> Vec<Op> {
    let mut ops = Vec::new();
    let mut live: Vec<usize> = Vec::new();
    let mut next = 0x1000usize;
    let maxlive = [3usize, 6, 12, 24, 50][rng.below(5)];
    for _ in 0..n {
        match rng.below(if with_gc { 12 } else { 11 }) {
            0..=4 if live.len() < maxlive => { next += 8 * (1 + rng.below(4)); live.push(next); ops.push(Op::Insert(next, rng.next() & 0xffff)); }
            0..=7 if !live.is_empty() => { let i = rng.below(live.len()); let k = live.swap_remove(i); ops.push(Op::Remove(k)); }
            8 if !live.is_empty() => { let k = live[rng.below(live.len())]; ops.push(Op::Insert(k, rng.next() & 0xffff)); }
            9 => { ops.push(Op::Get(0x10 + 8 * rng.below(100000))); }
            10 if !live.is_empty() => { ops.push(Op::Get(live[rng.below(live.len())])); }
            11 => { let d = 8 * (1 + rng.below(1000)) * 4096; for k in live.iter_mut() { *k += d; } next += d; ops.push(Op::MoveAll(d)); }
            _ => { next += 8; live.push(next); ops.push(Op::Insert(next, 1)); }
        }
    }
    ops
}
