
// ---- driver for the wait queues (WaitLists / append_to_waitlist / DoraThread link operations, cut verbatim above) ----
// Sequential executable contract: per object a set of waiting threads (the code keeps them in a FIFO queue; the order is not demanded); a thread is "blocking" exactly while it is queued;
// wakeup(obj) releases exactly one waiting thread of obj, wakeup_all(obj) releases all of them, a notification
// without waiter changes nothing, a conditional enqueue whose condition is false enqueues nobody; moving collections
// (keys rewritten through visit_roots + epoch change) do not lose or reorder waiters.
use std::collections::VecDeque;

#[derive(Clone, Debug)]
pub enum WOp { Enqueue(usize, usize, bool), Wakeup(usize), WakeupAll(usize), MoveAll(usize) }

fn is_blocking(t: &DoraThread) -> bool { t.blocking_data.blocking.lock().0 }

pub fn run_wait_ops(nthreads: usize, ops: &[WOp]) -> Result<(), String> {
    crate::env::EPOCH.store(0, std::sync::atomic::Ordering::SeqCst);
    let threads: Vec<&'static DoraThread> = (0..nthreads).map(|_| &*Box::leak(Box::new(DoraThread { blocking_data: BlockingData::new() }))).collect();
    let ptr_of = |i: usize| DoraThreadPtr(Address::from_ptr(threads[i] as *const DoraThread));
    let wl = WaitLists::new();
    let mut model: HashMap<usize, VecDeque<usize>> = HashMap::new();
    let mut queued = vec![false; nthreads];
    let mut used = false;
    for (i, op) in ops.iter().enumerate() {
        match *op {
            WOp::Enqueue(t, obj, cond) => {
                if queued[t] { continue; } // a thread waits on one object at a time (it is parked while queued)
                // the condition must be evaluated WHILE the wait-table lock is held (otherwise an unlock between the check and the enqueue is lost)
                let mut under_lock = false;
                let r = wl.conditionally_enqueue(ptr_of(t), Address::from(obj), || { under_lock = wl.data.try_lock().is_none(); cond });
                if !under_lock { return Err(format!("op #{} conditionally_enqueue evaluated its condition without holding the wait-table lock (a wake-up between check and enqueue would be lost)", i)); }
                if r != cond { return Err(format!("op #{} conditionally_enqueue returned {} for condition {}", i, r, cond)); }
                if cond { model.entry(obj).or_default().push_back(t); queued[t] = true; used = true; }
            }
            WOp::Wakeup(obj) => {
                wl.wakeup(Address::from(obj));
                // exactly ONE waiter of this object is released (the property does not prescribe which; the code happens to be FIFO)
                let mut drop_key = false;
                if let Some(q) = model.get_mut(&obj) {
                    let released: Vec<usize> = q.iter().cloned().filter(|&t| !is_blocking(threads[t])).collect();
                    if released.len() != 1 {
                        return Err(format!("op #{} wakeup({:#x}) released {} of the {} waiters of that object (expected exactly one)", i, obj, released.len(), q.len()));
                    }
                    q.retain(|&t| t != released[0]);
                    queued[released[0]] = false;
                    drop_key = q.is_empty();
                }
                if drop_key { model.remove(&obj); }
            }
            WOp::WakeupAll(obj) => {
                // caller-history precondition (pkgs/std/thread.dora: notify_all returns early while `waiters` is 0): the table has
                // seen an enqueue; ObjectHashMap::remove on the never-used table (capacity 0) is outside its contract
                if !used { continue; }
                wl.wakeup_all(Address::from(obj));
                if let Some(q) = model.remove(&obj) { for t in q { queued[t] = false; } }
            }
            WOp::MoveAll(delta) => {
                let mut slots: Vec<Slot> = Vec::new();
                wl.visit_roots(|s| slots.push(s));
                if slots.len() != model.len() { return Err(format!("op #{} visit_roots reported {} slots for {} waited-on objects", i, slots.len(), model.len())); }
                let mut nm = HashMap::new();
                for s in slots {
                    let p = s.0.to_usize() as *mut usize;
                    let old = unsafe { *p };
                    let q = match model.remove(&old) { Some(q) => q, None => return Err(format!("op #{} visit_roots slot holds {:#x} which no thread waits on", i, old)) };
                    unsafe { *p = old + delta; }
                    nm.insert(old + delta, q);
                }
                model = nm;
                crate::env::EPOCH.fetch_add(1, std::sync::atomic::Ordering::SeqCst);
            }
        }
        for t in 0..nthreads {
            if is_blocking(threads[t]) != queued[t] {
                return Err(format!("after op #{} ({:?}): thread {} is {} but the FIFO model says {}", i, op, t,
                                   if is_blocking(threads[t]) { "still blocked" } else { "released" }, if queued[t] { "it must still wait" } else { "it was woken / never queued" }));
            }
        }
    }
    // drain: every wakeup releases exactly one more waiter until nobody waits
    let objs: Vec<usize> = model.keys().cloned().collect();
    for obj in objs {
        let q = model.remove(&obj).unwrap();
        for n in 0..q.len() {
            wl.wakeup(Address::from(obj));
            let still = q.iter().filter(|&&u| is_blocking(threads[u])).count();
            if still != q.len() - n - 1 {
                return Err(format!("draining object {:#x}: after {} wakeups {} of its {} waiters are still blocked (expected {})", obj, n + 1, still, q.len(), q.len() - n - 1));
            }
        }
    }
    Ok(())
}

pub fn gen_wait_ops(rng: &mut Rng, n: usize, nthreads: usize, with_gc: bool) -> Vec<WOp> {
    let nobj = [1usize, 2, 3, 9, 30][rng.below(5)];
    let mut base = 0x2000usize;
    let mut ops = Vec::new();
    for _ in 0..n {
        let obj = base + 8 * rng.below(nobj);
        match rng.below(if with_gc { 11 } else { 10 }) {
            0..=4 => ops.push(WOp::Enqueue(rng.below(nthreads), obj, rng.below(8) != 0)),
            5..=7 => ops.push(WOp::Wakeup(obj)),
            8 => ops.push(WOp::WakeupAll(obj)),
            9 => ops.push(WOp::Wakeup(base + 8 * (nobj + rng.below(4)))), // nobody waits there
            _ => { let d = 8 * (1 + rng.below(1000)) * 4096; base += d; ops.push(WOp::MoveAll(d)); }
        }
    }
    ops
}
