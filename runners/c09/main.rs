// Replay runner for C09(b): the address-keyed wait table. ObjectHashMap (and what it names) is cut verbatim
// from dora-runtime/src/runtime/waitlists.rs into ohm.rs on every run; Address from gc.rs into address.rs.
mod address;
mod env;
mod ohm;
use ohm::{gen_ops, gen_wait_ops, run_ops, run_wait_ops, Op, Rng, WOp};
use std::sync::mpsc;
use std::time::{Duration, Instant};

fn run_with_timeout(ops: Vec<Op>) -> Result<(), String> {
    let (tx, rx) = mpsc::channel();
    std::thread::spawn(move || {
        let r = std::panic::catch_unwind(|| run_ops(&ops));
        let _ = tx.send(match r { Ok(r) => r, Err(_) => Err("panic inside the table".to_string()) });
    });
    // a case takes microseconds; 1.5 s and then another 20 s (a loaded machine must not turn scheduling delay into an alarm)
    match rx.recv_timeout(Duration::from_millis(1500)).or_else(|_| rx.recv_timeout(Duration::from_secs(20))) {
        Ok(r) => r,
        Err(_) => Err("a probe loop does not terminate (no EMPTY slot left: live entries + tombstones fill the table)".to_string()),
    }
}

fn run_wait_with_timeout(nthreads: usize, ops: Vec<WOp>) -> Result<(), String> {
    let (tx, rx) = mpsc::channel();
    std::thread::spawn(move || {
        let r = std::panic::catch_unwind(|| run_wait_ops(nthreads, &ops));
        let _ = tx.send(match r { Ok(r) => r, Err(_) => Err("panic inside the wait-queue code (a link-state assertion failed)".to_string()) });
    });
    match rx.recv_timeout(Duration::from_millis(1500)).or_else(|_| rx.recv_timeout(Duration::from_secs(20))) {
        Ok(r) => r,
        Err(_) => Err("a wait-queue operation does not terminate".to_string()),
    }
}

fn wait_case(seed: u64, iter: u64) -> (usize, Vec<WOp>) {
    let mut rng = Rng((seed.wrapping_mul(0x9E3779B97F4A7C15) ^ iter.wrapping_mul(0xD1B54A32D192ED03)) | 1);
    let n = [10usize, 40, 150, 600][rng.below(4)];
    let nthreads = [1usize, 2, 3, 8, 40][rng.below(5)];
    let with_gc = rng.below(2) == 0;
    (nthreads, gen_wait_ops(&mut rng, n, nthreads, with_gc))
}

fn case(seed: u64, iter: u64) -> Vec<Op> {
    let mut rng = Rng((seed.wrapping_mul(0x9E3779B97F4A7C15) ^ iter.wrapping_mul(0xD1B54A32D192ED03)) | 1);
    let n = [20usize, 60, 200, 1000][rng.below(4)];
    let with_gc = rng.below(2) == 0;
    gen_ops(&mut rng, n, with_gc)
}

fn main() {
    if std::env::var("VX_BACKTRACE").is_err() { std::panic::set_hook(Box::new(|_| {})); }
    let args: Vec<String> = std::env::args().collect();
    if args.len() >= 4 && args[1] == "replay-wait" {
        let (nt, ops) = wait_case(args[2].parse().unwrap(), args[3].parse().unwrap());
        match run_wait_with_timeout(nt, ops.clone()) {
            Ok(()) => { println!("case passes on the real code"); std::process::exit(0) }
            Err(e) => { println!("STILL FAILS on the real code: {} ({} threads, {} operations; first: {:?})", e, nt, ops.len(), &ops[..ops.len().min(8)]); std::process::exit(1) }
        }
    }
    if args.len() >= 4 && args[1] == "replay" {
        let ops = case(args[2].parse().unwrap(), args[3].parse().unwrap());
        match run_with_timeout(ops.clone()) {
            Ok(()) => { println!("case passes on the real code"); std::process::exit(0) }
            Err(e) => { println!("STILL FAILS on the real code: {} ({} operations; first: {:?})", e, ops.len(), &ops[..ops.len().min(6)]); std::process::exit(1) }
        }
    }
    let seed: u64 = args.get(2).and_then(|s| s.parse().ok()).unwrap_or(1);
    let budget = Duration::from_millis(args.get(3).and_then(|s| s.parse().ok()).unwrap_or(3000));
    let t0 = Instant::now();
    let mut iter = 0u64;
    while t0.elapsed() < budget {
        if let Err(e) = run_with_timeout(case(seed, iter)) {
            println!("{{\"found\":true,\"seed\":{},\"iter\":{},\"tried\":{},\"what\":{:?}}}", seed, iter, iter + 1, e);
            std::process::exit(0);
        }
        // the wait queues built on the table (every other case)
        let (nt, wops) = wait_case(seed, iter);
        if let Err(e) = run_wait_with_timeout(nt, wops) {
            println!("{{\"found\":true,\"kind\":\"wait\",\"seed\":{},\"iter\":{},\"tried\":{},\"what\":{:?}}}", seed, iter, iter + 1, e);
            std::process::exit(0);
        }
        iter += 1;
    }
    println!("{{\"found\":false,\"tried\":{},\"wait_queue_cases\":{}}}", iter, iter);
}
