// Replay runner for the stack-map / source-position tables of C10 (links the REAL dora-compiler of the working tree).
// Executes the contract of GcPointTable and LocationTable (proved in unit c10_tables) on generated insert sequences:
// offsets inserted in increasing order; get(o) returns the entry inserted for exactly o, None for every other offset;
// entries() is the insertion sequence. Gives a concrete input when the proof fails or is undecided.
use dora_bytecode::Location;
use dora_compiler::{GcPoint, GcPointTable, InlinedLocation, LocationTable};
use std::time::{Duration, Instant};

struct Rng(u64);
impl Rng {
    fn next(&mut self) -> u64 { self.0 ^= self.0 << 13; self.0 ^= self.0 >> 7; self.0 ^= self.0 << 17; self.0 }
    fn below(&mut self, n: usize) -> usize { (self.next() % n as u64) as usize }
}

fn case(seed: u64, iter: u64) -> Result<(), String> {
    let mut rng = Rng((seed.wrapping_mul(0x9E3779B97F4A7C15) ^ iter.wrapping_mul(0xD1B54A32D192ED03)) | 1);
    let n = [0usize, 1, 2, 3, 7, 16, 40][rng.below(7)];
    let mut offs: Vec<u32> = Vec::new();
    let mut cur = if rng.below(2) == 0 { 0 } else { rng.below(50) as u32 };
    for _ in 0..n {
        cur += 1 + rng.below(9) as u32;
        offs.push(cur);
    }
    let mut gc = GcPointTable::new();
    let mut loc = LocationTable::new();
    for (k, &o) in offs.iter().enumerate() {
        gc.insert(o, GcPoint::new(vec![k as i32, -(k as i32) - 8], vec![]));
        loc.insert(o, InlinedLocation { location: Location::new(k as u32 + 1, 1), inlined_function_id: None });
    }
    if gc.entries().len() != n || loc.entries().len() != n { return Err(format!("{} inserts, entries() has {} / {}", n, gc.entries().len(), loc.entries().len())); }
    let hi = cur + 12;
    for q in 0..=hi {
        let want = offs.iter().position(|&o| o == q);
        match (gc.get(q), want) {
            (Some(g), Some(k)) => if g.offsets != vec![k as i32, -(k as i32) - 8] { return Err(format!("GcPointTable::get({}) returned the stack map inserted for another offset (offsets {:?})", q, offs)); },
            (None, None) => {}
            (Some(_), None) => return Err(format!("GcPointTable::get({}) returned a stack map although only {:?} were inserted", q, offs)),
            (None, Some(_)) => return Err(format!("GcPointTable::get({}) found nothing although {:?} were inserted", q, offs)),
        }
        match (loc.get(q), want) {
            (Some(l), Some(k)) => if l.location.line() != k as u32 + 1 { return Err(format!("LocationTable::get({}) returned the position inserted for another offset (offsets {:?})", q, offs)); },
            (None, None) => {}
            (Some(_), None) => return Err(format!("LocationTable::get({}) returned a position although only {:?} were inserted", q, offs)),
            (None, Some(_)) => return Err(format!("LocationTable::get({}) found nothing although {:?} were inserted", q, offs)),
        }
    }
    for w in loc.entries().windows(2) {
        if w[0].0 >= w[1].0 { return Err(format!("LocationTable::entries() is not ordered: {} before {}", w[0].0, w[1].0)); }
    }
    Ok(())
}

fn main() {
    std::panic::set_hook(Box::new(|_| {}));
    let args: Vec<String> = std::env::args().collect();
    if args.len() >= 4 && args[1] == "replay" {
        match std::panic::catch_unwind(|| case(args[2].parse().unwrap(), args[3].parse().unwrap())) {
            Ok(Ok(())) => { println!("case passes on the real code"); std::process::exit(0) }
            Ok(Err(e)) => { println!("STILL FAILS on the real code: {}", e); std::process::exit(1) }
            Err(_) => { println!("STILL FAILS on the real code: panic inside the table code"); std::process::exit(1) }
        }
    }
    let seed: u64 = args.get(2).and_then(|s| s.parse().ok()).unwrap_or(1);
    let budget = Duration::from_millis(args.get(3).and_then(|s| s.parse().ok()).unwrap_or(2000));
    let t0 = Instant::now();
    let mut iter = 0u64;
    while t0.elapsed() < budget {
        match std::panic::catch_unwind(|| case(seed, iter)) {
            Ok(Ok(())) => {}
            Ok(Err(e)) => { println!("{{\"found\":true,\"seed\":{},\"iter\":{},\"tried\":{},\"what\":{:?}}}", seed, iter, iter + 1, e); return; }
            Err(_) => { println!("{{\"found\":true,\"seed\":{},\"iter\":{},\"tried\":{},\"what\":\"panic inside the table code on an increasing insert sequence\"}}", seed, iter, iter + 1); return; }
        }
        iter += 1;
    }
    println!("{{\"found\":false,\"tried\":{}}}", iter);
}
