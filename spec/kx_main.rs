// Replay / sampling runner over the contract rows (ordinary binary, links the real crate).
//   replay <row> <v1,v2,...>     run one row on the verifier's counterexample operands
//   sample <row|all> <seed> <n>  seeded concrete runs of rows (oracle self-test material)
#[cfg(kani)]
fn main() {}

#[cfg(not(kani))]
use vp_rows::registry::ALL;
#[cfg(not(kani))]
use vp_rows::vp::{run_concrete, Outcome, Src};

#[cfg(not(kani))]
fn main() {
    std::panic::set_hook(Box::new(|_| {}));
    let args: Vec<String> = std::env::args().collect();
    if args.len() >= 3 && args[1] == "replay" {
        let vals: Vec<u64> = if args.len() > 3 && !args[3].is_empty() {
            args[3].split(',').map(|x| x.parse::<u64>().unwrap()).collect()
        } else {
            Vec::new()
        };
        let row = ALL.iter().find(|(n, _)| *n == args[2]).expect("unknown row");
        let mut s = Src::concrete(vals);
        let (o, notes) = run_concrete(row.1, &mut s);
        for n in &notes {
            println!("note: {}", n);
        }
        println!("operands drawn: {:?}", s.drawn);
        match o {
            Outcome::Violated(f) => {
                println!("STILL FAILS on the real code: {:?}", f);
                std::process::exit(1);
            }
            other => {
                println!("outcome: {:?}", other);
                std::process::exit(0);
            }
        }
    }
    if args.len() >= 5 && args[1] == "sample" {
        let seed: u64 = args[3].parse().unwrap();
        let n: u64 = args[4].parse().unwrap();
        let mut bad = 0;
        for (name, f) in ALL.iter() {
            if args[2] != "all" && args[2] != *name {
                continue;
            }
            let (mut held, mut refused, mut skipped) = (0u64, 0u64, 0u64);
            for k in 0..n {
                let mut s = Src::random(seed.wrapping_mul(0x9E3779B97F4A7C15).wrapping_add(k * 7919 + 1));
                let (o, notes) = run_concrete(*f, &mut s);
                match o {
                    Outcome::Held => {
                        held += 1;
                        if k < 3 {
                            for nt in &notes {
                                println!("SAMPLE {} {:?} {}", name, s.drawn, nt);
                            }
                        }
                    }
                    Outcome::Refused(_) => refused += 1,
                    Outcome::AssumeFailed => skipped += 1,
                    Outcome::Violated(fl) => {
                        bad += 1;
                        println!("VIOLATED {} operands={:?} {:?} {:?}", name, s.drawn, fl, notes);
                        break;
                    }
                }
            }
            println!("ROW {} held={} refused={} skipped={}", name, held, refused, skipped);
        }
        std::process::exit(if bad > 0 { 1 } else { 0 });
    }
    eprintln!("usage: replay <row> <v1,v2,..> | sample <row|all> <seed> <n>");
    std::process::exit(2);
}
