//! a64dec — reference decoder for the A64 instructions the dora assembler offers.
//! Written from the Arm ARM (C4 "A64 instruction set encoding", C6/C7 instruction pages),
//! NOT from dora-asm/src/arm64.rs. Loop-free; total on u32; no allocation.
//!
//! Conventions of the decoded form
//!  * register number 31 decodes to `R::Sp` or `R::Zr` exactly as the instruction class reads it;
//!  * SIMD&FP registers decode to `R::V(n)`; their width is `Insn::size` (bytes);
//!  * every immediate is fully decoded: add/sub imm12 already shifted, logical immediates expanded
//!    (DecodeBitMasks), load/store offsets in BYTES, ADRP offset in BYTES (imm21 << 12);
//!  * branch offsets (`imm` of B/BL/B.cond/CBZ/CBNZ/TBZ/TBNZ, ADR) are in BYTES relative to the
//!    address of the instruction itself (sign-extended field * 4);
//!  * anything unallocated / not modelled decodes to `Op::Unknown`.
#![allow(dead_code)]

/// A register operand as the instruction class reads register number 31.
#[derive(Copy, Clone, PartialEq, Eq, Debug)]
pub enum R {
    X(u8), // x0..x30 / w0..w30 (width is Insn::sf)
    Zr,
    Sp,
    V(u8), // SIMD&FP register 0..31 (width is Insn::size; for FP<->int conversions the FP side)
    None,
}

#[derive(Copy, Clone, PartialEq, Eq, Debug)]
pub enum Op {
    Unknown,
    // --- data processing, immediate
    AddImm,  // ADD  <Rd|SP>, <Rn|SP>, #imm
    AddsImm, // ADDS <Rd>, <Rn|SP>, #imm  (CMN alias when Rd = ZR)
    SubImm,
    SubsImm, // (CMP alias when Rd = ZR)
    AndImm, // rd: SP-type; imm = expanded bitmask
    OrrImm,
    EorImm,
    AndsImm, // rd: ZR-type
    Movn,    // imm = imm16, imm2 = shift (0,16,32,48)
    Movz,
    Movk,
    Sbfm, // imm = immr, imm2 = imms
    Bfm,
    Ubfm,
    Extr, // imm = lsb
    Adr,  // imm = byte offset
    Adrp, // imm = byte offset (multiple of 4096)
    // --- branches, exceptions, system
    B,
    Bl,
    BCond,
    Cbz, // rd = Rt
    Cbnz,
    Tbz, // rd = Rt, imm2 = bit number, sf = 64 if bit >= 32 else 32
    Tbnz,
    Br,
    Blr,
    Ret,
    Svc,
    Hvc,
    Smc,
    Brk,
    Hlt,
    Hint, // imm = CRm:op2 (0 = NOP)
    Clrex,
    Dsb, // imm = CRm
    Dmb,
    Isb,
    // --- data processing, register
    AddSh, // opt = shift type (0 LSL,1 LSR,2 ASR), imm = amount
    AddsSh,
    SubSh,
    SubsSh,
    AddExt, // opt = extend option 0..7 (UXTB,UXTH,UXTW,UXTX,SXTB,SXTH,SXTW,SXTX), imm = left shift 0..4
    AddsExt,
    SubExt,
    SubsExt,
    AndSh, // opt = shift type (0..3, 3 = ROR), imm = amount
    BicSh,
    OrrSh,
    OrnSh,
    EorSh,
    EonSh,
    AndsSh,
    BicsSh,
    Adc,
    Adcs,
    Sbc,
    Sbcs,
    Csel,
    Csinc,
    Csinv,
    Csneg,
    Rbit,
    Rev16,
    Rev32,
    Rev,
    Clz,
    Cls,
    Udiv,
    Sdiv,
    Lslv,
    Lsrv,
    Asrv,
    Rorv,
    Madd,
    Msub,
    Smaddl,
    Smsubl,
    Smulh,
    Umaddl,
    Umsubl,
    Umulh,
    // --- loads and stores. rd = Rt, rn = base (SP-type), size = access bytes, sf = width of a GPR Rt
    //     (0 when Rt is a SIMD&FP register), sign = sign-extending load, imm = byte offset.
    LdrOff, // unsigned scaled 12-bit offset
    StrOff,
    Ldur, // unscaled signed 9-bit offset
    Stur,
    LdrPre,
    StrPre,
    LdrPost,
    StrPost,
    LdrReg, // rm = index, opt = option (2 UXTW, 3 LSL, 6 SXTW, 7 SXTX), imm2 = shift amount
    StrReg,
    LdrLit, // imm = byte offset relative to the instruction
    LdpOff, // rt2 = second register, size = bytes per register
    StpOff,
    LdpPre,
    StpPre,
    LdpPost,
    StpPost,
    Ldnp,
    Stnp,
    Ldxr, // size, rd = Rt, rn = base
    Ldaxr,
    Stxr, // rs = status register (W)
    Stlxr,
    Ldar,
    Ldlar,
    Stlr,
    Stllr,
    Cas, // rs = compare/result register, rd = Rt (new value), acq / rel
    Ldadd, // rs = operand register, rd = Rt (loaded old value), acq / rel
    Ldclr,
    Ldeor,
    Ldset,
    Ldsmax,
    Ldsmin,
    Ldumax,
    Ldumin,
    Swp,
    // --- scalar floating point. size = precision in bytes (2,4,8)
    Fmov, // register to register, same precision
    Fabs,
    Fneg,
    Fsqrt,
    Fcvt, // size = source precision, imm2 = destination precision (bytes)
    Frintn,
    Frintp,
    Frintm,
    Frintz,
    Frinta,
    Frintx,
    Frinti,
    Fmul,
    Fdiv,
    Fadd,
    Fsub,
    Fmax,
    Fmin,
    Fmaxnm,
    Fminnm,
    Fnmul,
    Fcmp, // rm = R::None for the compare-with-zero form
    Fcmpe,
    Fcsel,
    // FP <-> integer: sf = GPR width, size = FP precision
    Fcvtns,
    Fcvtnu,
    Scvtf,
    Ucvtf,
    Fcvtas,
    Fcvtau,
    FmovToGpr, // rd = GPR, rn = V
    FmovToFpr, // rd = V, rn = GPR
    Fcvtps,
    Fcvtpu,
    Fcvtms,
    Fcvtmu,
    Fcvtzs,
    Fcvtzu,
    // --- Advanced SIMD (the few offered). size = element bytes, opt = Q
    Cnt,
    Addv,
    Saddlv,
    Uaddlv,
}

/// Flat decoded form. Unused fields keep their `Insn::new` value.
#[derive(Copy, Clone, PartialEq, Eq, Debug)]
pub struct Insn {
    pub op: Op,
    pub sf: u8,   // GPR operand size 32 / 64 (0 if not applicable)
    pub size: u8, // memory access / FP precision / SIMD element size in bytes (0 if not applicable)
    pub rd: R,    // Rd, or Rt of loads/stores/compare-and-branch
    pub rn: R,
    pub rm: R,
    pub ra: R,
    pub rt2: R,
    pub rs: R,
    pub imm: i64,  // primary immediate, fully decoded (shifted / scaled / sign-extended)
    pub imm2: i64, // secondary immediate (shift amount, imms, bit number ...)
    pub cond: u8,
    pub opt: u8, // shift type / extend option / Q
    pub sign: bool,
    pub acq: bool,
    pub rel: bool,
}

impl Insn {
    pub const fn new(op: Op) -> Insn {
        Insn {
            op,
            sf: 0,
            size: 0,
            rd: R::None,
            rn: R::None,
            rm: R::None,
            ra: R::None,
            rt2: R::None,
            rs: R::None,
            imm: 0,
            imm2: 0,
            cond: 0,
            opt: 0,
            sign: false,
            acq: false,
            rel: false,
        }
    }
}

const UNKNOWN: Insn = Insn::new(Op::Unknown);

fn bits(w: u32, hi: u32, lo: u32) -> u32 {
    (w >> lo) & ((1u32 << (hi - lo + 1)) - 1)
}
fn bit(w: u32, n: u32) -> u32 {
    (w >> n) & 1
}
fn r_sp(n: u32) -> R {
    if n == 31 { R::Sp } else { R::X((n & 31) as u8) }
}
fn r_zr(n: u32) -> R {
    if n == 31 { R::Zr } else { R::X((n & 31) as u8) }
}
fn r_v(n: u32) -> R {
    R::V((n & 31) as u8)
}
/// sign-extend the low `n` bits (1 <= n <= 32) of v
fn sext(v: u32, n: u32) -> i64 {
    let m = 1u64 << (n - 1);
    let x = (v as u64) & ((1u64 << n) - 1);
    ((x ^ m) as i64) - (m as i64)
}
fn sfw(sf: u32) -> u8 {
    if sf == 1 { 64 } else { 32 }
}

/// Arm ARM shared pseudo-code DecodeBitMasks(N, imms, immr, immediate = TRUE), `wmask` only.
/// None = the combination is reserved. Result is the 64-bit replicated pattern.
pub fn decode_bit_masks(n: u32, imms: u32, immr: u32) -> Option<u64> {
    // len = HighestSetBit(N : NOT(imms))
    let v = ((n & 1) << 6) | (!imms & 0x3f);
    let len: u32 = if v & 0x40 != 0 {
        6
    } else if v & 0x20 != 0 {
        5
    } else if v & 0x10 != 0 {
        4
    } else if v & 0x08 != 0 {
        3
    } else if v & 0x04 != 0 {
        2
    } else if v & 0x02 != 0 {
        1
    } else {
        return None;
    };
    let esize: u32 = 1 << len;
    let levels: u32 = esize - 1;
    let s = imms & levels;
    let r = immr & levels;
    if s == levels {
        return None;
    }
    // welem = ZeroExtend(Ones(S + 1), esize);  S + 1 <= 63
    let welem: u64 = (1u64 << (s + 1)) - 1;
    let emask: u64 = if esize == 64 { u64::MAX } else { (1u64 << esize) - 1 };
    // ROR(welem, R) within esize bits
    let rot: u64 = if r == 0 { welem } else { ((welem >> r) | (welem << (esize - r))) & emask };
    // Replicate(rot, 64 / esize), doubling by hand
    let mut m = rot;
    if esize <= 2 {
        m |= m << 2;
    }
    if esize <= 4 {
        m |= m << 4;
    }
    if esize <= 8 {
        m |= m << 8;
    }
    if esize <= 16 {
        m |= m << 16;
    }
    if esize <= 32 {
        m |= m << 32;
    }
    Some(m)
}

pub fn decode(w: u32) -> Insn {
    let op0 = bits(w, 28, 25);
    if op0 & 0b1110 == 0b1000 {
        return dp_imm(w);
    }
    if op0 & 0b1110 == 0b1010 {
        return branch_sys(w);
    }
    if op0 & 0b0101 == 0b0100 {
        return ldst(w);
    }
    if op0 & 0b0111 == 0b0101 {
        return dp_reg(w);
    }
    if op0 & 0b0111 == 0b0111 {
        return simd_fp(w);
    }
    UNKNOWN
}

// ---------------------------------------------------------------------------------------------
// C4.1 Data processing -- immediate
fn dp_imm(w: u32) -> Insn {
    let sf = bit(w, 31);
    let rd = bits(w, 4, 0);
    let rn = bits(w, 9, 5);
    match bits(w, 25, 23) {
        0b000 | 0b001 => {
            // PC-rel. addressing: op immlo 10000 immhi Rd
            let imm21 = (bits(w, 23, 5) << 2) | bits(w, 30, 29);
            let off = sext(imm21, 21);
            let mut i = Insn::new(if sf == 1 { Op::Adrp } else { Op::Adr });
            i.rd = r_zr(rd);
            i.imm = if sf == 1 { off << 12 } else { off };
            i
        }
        0b010 => {
            // Add/subtract (immediate): sf op S 100010 sh imm12 Rn Rd
            let op = bit(w, 30);
            let s = bit(w, 29);
            let sh = bit(w, 22);
            let imm12 = bits(w, 21, 10) as i64;
            let mut i = Insn::new(match (op, s) {
                (0, 0) => Op::AddImm,
                (0, _) => Op::AddsImm,
                (1, 0) => Op::SubImm,
                _ => Op::SubsImm,
            });
            i.sf = sfw(sf);
            i.rn = r_sp(rn);
            i.rd = if s == 0 { r_sp(rd) } else { r_zr(rd) };
            i.imm = if sh == 1 { imm12 << 12 } else { imm12 };
            i
        }
        0b100 => {
            // Logical (immediate): sf opc 100100 N immr imms Rn Rd
            let opc = bits(w, 30, 29);
            let n = bit(w, 22);
            if sf == 0 && n == 1 {
                return UNKNOWN;
            }
            let m = match decode_bit_masks(n, bits(w, 15, 10), bits(w, 21, 16)) {
                Some(m) => m,
                None => return UNKNOWN,
            };
            let mut i = Insn::new(match opc {
                0 => Op::AndImm,
                1 => Op::OrrImm,
                2 => Op::EorImm,
                _ => Op::AndsImm,
            });
            i.sf = sfw(sf);
            i.rn = r_zr(rn);
            i.rd = if opc == 3 { r_zr(rd) } else { r_sp(rd) };
            i.imm = if sf == 1 { m as i64 } else { (m & 0xffff_ffff) as i64 };
            i
        }
        0b101 => {
            // Move wide (immediate): sf opc 100101 hw imm16 Rd
            let opc = bits(w, 30, 29);
            let hw = bits(w, 22, 21);
            if opc == 1 || (sf == 0 && hw >= 2) {
                return UNKNOWN;
            }
            let mut i = Insn::new(match opc {
                0 => Op::Movn,
                2 => Op::Movz,
                _ => Op::Movk,
            });
            i.sf = sfw(sf);
            i.rd = r_zr(rd);
            i.imm = bits(w, 20, 5) as i64;
            i.imm2 = (hw * 16) as i64;
            i
        }
        0b110 => {
            // Bitfield: sf opc 100110 N immr imms Rn Rd
            let opc = bits(w, 30, 29);
            let n = bit(w, 22);
            let immr = bits(w, 21, 16);
            let imms = bits(w, 15, 10);
            if opc == 3 || n != sf || (sf == 0 && (immr >= 32 || imms >= 32)) {
                return UNKNOWN;
            }
            let mut i = Insn::new(match opc {
                0 => Op::Sbfm,
                1 => Op::Bfm,
                _ => Op::Ubfm,
            });
            i.sf = sfw(sf);
            i.rd = r_zr(rd);
            i.rn = r_zr(rn);
            i.imm = immr as i64;
            i.imm2 = imms as i64;
            i
        }
        0b111 => {
            // Extract: sf op21 100111 N o0 Rm imms Rn Rd
            let n = bit(w, 22);
            let imms = bits(w, 15, 10);
            if bits(w, 30, 29) != 0 || bit(w, 21) != 0 || n != sf || (sf == 0 && imms >= 32) {
                return UNKNOWN;
            }
            let mut i = Insn::new(Op::Extr);
            i.sf = sfw(sf);
            i.rd = r_zr(rd);
            i.rn = r_zr(rn);
            i.rm = r_zr(bits(w, 20, 16));
            i.imm = imms as i64;
            i
        }
        _ => UNKNOWN, // 011: add/sub immediate with tags
    }
}

// ---------------------------------------------------------------------------------------------
// C4.1 Branches, exception generating and system instructions
fn branch_sys(w: u32) -> Insn {
    // Unconditional branch (immediate): op 00101 imm26
    if bits(w, 30, 26) == 0b00101 {
        let mut i = Insn::new(if bit(w, 31) == 1 { Op::Bl } else { Op::B });
        i.imm = sext(bits(w, 25, 0), 26) * 4;
        return i;
    }
    // Compare and branch (immediate): sf 011010 op imm19 Rt
    if bits(w, 30, 25) == 0b011010 {
        let mut i = Insn::new(if bit(w, 24) == 1 { Op::Cbnz } else { Op::Cbz });
        i.sf = sfw(bit(w, 31));
        i.rd = r_zr(bits(w, 4, 0));
        i.imm = sext(bits(w, 23, 5), 19) * 4;
        return i;
    }
    // Test and branch (immediate): b5 011011 op b40 imm14 Rt
    if bits(w, 30, 25) == 0b011011 {
        let mut i = Insn::new(if bit(w, 24) == 1 { Op::Tbnz } else { Op::Tbz });
        let b5 = bit(w, 31);
        i.sf = sfw(b5);
        i.rd = r_zr(bits(w, 4, 0));
        i.imm2 = ((b5 << 5) | bits(w, 23, 19)) as i64;
        i.imm = sext(bits(w, 18, 5), 14) * 4;
        return i;
    }
    // Conditional branch (immediate): 0101010 o1 imm19 o0 cond
    if bits(w, 31, 25) == 0b0101010 {
        if bit(w, 24) != 0 || bit(w, 4) != 0 {
            return UNKNOWN;
        }
        let mut i = Insn::new(Op::BCond);
        i.cond = bits(w, 3, 0) as u8;
        i.imm = sext(bits(w, 23, 5), 19) * 4;
        return i;
    }
    // Exception generation: 11010100 opc imm16 op2 LL
    if bits(w, 31, 24) == 0b1101_0100 {
        let opc = bits(w, 23, 21);
        let op2 = bits(w, 4, 2);
        let ll = bits(w, 1, 0);
        if op2 != 0 {
            return UNKNOWN;
        }
        let op = match (opc, ll) {
            (0b000, 0b01) => Op::Svc,
            (0b000, 0b10) => Op::Hvc,
            (0b000, 0b11) => Op::Smc,
            (0b001, 0b00) => Op::Brk,
            (0b010, 0b00) => Op::Hlt,
            _ => return UNKNOWN,
        };
        let mut i = Insn::new(op);
        i.imm = bits(w, 20, 5) as i64;
        return i;
    }
    // System: 1101010100 L op0 op1 CRn CRm op2 Rt
    if bits(w, 31, 22) == 0b11_0101_0100 {
        let l = bit(w, 21);
        let sop0 = bits(w, 20, 19);
        let sop1 = bits(w, 18, 16);
        let crn = bits(w, 15, 12);
        let crm = bits(w, 11, 8);
        let sop2 = bits(w, 7, 5);
        let rt = bits(w, 4, 0);
        if l == 0 && sop0 == 0 && sop1 == 0b011 && rt == 31 {
            if crn == 0b0010 {
                let mut i = Insn::new(Op::Hint);
                i.imm = ((crm << 3) | sop2) as i64;
                return i;
            }
            if crn == 0b0011 {
                let op = match sop2 {
                    0b010 => Op::Clrex,
                    0b100 => Op::Dsb,
                    0b101 => Op::Dmb,
                    0b110 => Op::Isb,
                    _ => return UNKNOWN,
                };
                let mut i = Insn::new(op);
                i.imm = crm as i64;
                return i;
            }
        }
        return UNKNOWN;
    }
    // Unconditional branch (register): 1101011 opc op2 op3 Rn op4
    if bits(w, 31, 25) == 0b1101011 {
        if bits(w, 20, 16) != 0b11111 || bits(w, 15, 10) != 0 || bits(w, 4, 0) != 0 {
            return UNKNOWN;
        }
        let op = match bits(w, 24, 21) {
            0b0000 => Op::Br,
            0b0001 => Op::Blr,
            0b0010 => Op::Ret,
            _ => return UNKNOWN,
        };
        let mut i = Insn::new(op);
        i.rn = r_zr(bits(w, 9, 5));
        return i;
    }
    UNKNOWN
}

// ---------------------------------------------------------------------------------------------
// C4.1 Loads and stores
fn ldst(w: u32) -> Insn {
    match bits(w, 29, 28) {
        0b00 => {
            if bit(w, 26) == 0 && bit(w, 24) == 0 {
                ldst_exclusive(w)
            } else {
                UNKNOWN // SIMD structure loads/stores, LDAPUR/STLUR
            }
        }
        0b01 => {
            if bit(w, 24) == 0 {
                ldr_literal(w)
            } else {
                UNKNOWN
            }
        }
        0b10 => ldst_pair(w),
        _ => ldst_reg(w),
    }
}

fn access_bytes(size: u32) -> u8 {
    match size & 3 {
        0 => 1,
        1 => 2,
        2 => 4,
        _ => 8,
    }
}

// size 001000 o2 L o1 Rs o0 Rt2 Rn Rt
fn ldst_exclusive(w: u32) -> Insn {
    let size = bits(w, 31, 30);
    let o2 = bit(w, 23);
    let l = bit(w, 22);
    let o1 = bit(w, 21);
    let rs = bits(w, 20, 16);
    let o0 = bit(w, 15);
    let rt2 = bits(w, 14, 10);
    let rn = bits(w, 9, 5);
    let rt = bits(w, 4, 0);
    let bytes = access_bytes(size);
    let width = if size == 3 { 64 } else { 32 };
    if rt2 != 31 {
        return UNKNOWN; // pair forms are not modelled; Rt2 is should-be-one elsewhere
    }
    let mut i;
    match (o2, o1) {
        (0, 0) => {
            if l == 0 {
                i = Insn::new(if o0 == 1 { Op::Stlxr } else { Op::Stxr });
                i.rs = r_zr(rs);
            } else {
                if rs != 31 {
                    return UNKNOWN;
                }
                i = Insn::new(if o0 == 1 { Op::Ldaxr } else { Op::Ldxr });
            }
        }
        (1, 0) => {
            if rs != 31 {
                return UNKNOWN;
            }
            i = Insn::new(match (l, o0) {
                (0, 0) => Op::Stllr,
                (0, _) => Op::Stlr,
                (1, 0) => Op::Ldlar,
                _ => Op::Ldar,
            });
        }
        (1, 1) => {
            // CAS family: size 0010001 L 1 Rs o0 11111 Rn Rt
            i = Insn::new(Op::Cas);
            i.rs = r_zr(rs);
            i.acq = l == 1;
            i.rel = o0 == 1;
        }
        _ => return UNKNOWN, // exclusive pair / CASP
    }
    i.size = bytes;
    i.sf = width;
    i.rd = r_zr(rt);
    i.rn = r_sp(rn);
    i
}

// opc 011 V 00 imm19 Rt
fn ldr_literal(w: u32) -> Insn {
    let opc = bits(w, 31, 30);
    let v = bit(w, 26);
    let rt = bits(w, 4, 0);
    let mut i = Insn::new(Op::LdrLit);
    i.imm = sext(bits(w, 23, 5), 19) * 4;
    if v == 0 {
        match opc {
            0 => {
                i.size = 4;
                i.sf = 32;
            }
            1 => {
                i.size = 8;
                i.sf = 64;
            }
            2 => {
                i.size = 4;
                i.sf = 64;
                i.sign = true;
            }
            _ => return UNKNOWN, // PRFM
        }
        i.rd = r_zr(rt);
    } else {
        i.size = match opc {
            0 => 4,
            1 => 8,
            2 => 16,
            _ => return UNKNOWN,
        };
        i.rd = r_v(rt);
    }
    i
}

// opc 101 V 0 mode L imm7 Rt2 Rn Rt
fn ldst_pair(w: u32) -> Insn {
    let opc = bits(w, 31, 30);
    let v = bit(w, 26);
    let mode = bits(w, 24, 23);
    let l = bit(w, 22);
    let imm7 = bits(w, 21, 15);
    let rt2 = bits(w, 14, 10);
    let rn = bits(w, 9, 5);
    let rt = bits(w, 4, 0);
    let op = match (mode, l) {
        (0, 0) => Op::Stnp,
        (0, _) => Op::Ldnp,
        (1, 0) => Op::StpPost,
        (1, _) => Op::LdpPost,
        (2, 0) => Op::StpOff,
        (2, _) => Op::LdpOff,
        (_, 0) => Op::StpPre,
        _ => Op::LdpPre,
    };
    let mut i = Insn::new(op);
    if v == 0 {
        match opc {
            0 => {
                i.size = 4;
                i.sf = 32;
            }
            1 => {
                // LDPSW (L = 1, not no-allocate); L = 0 is STGP (not modelled)
                if l == 0 || mode == 0 {
                    return UNKNOWN;
                }
                i.size = 4;
                i.sf = 64;
                i.sign = true;
            }
            2 => {
                i.size = 8;
                i.sf = 64;
            }
            _ => return UNKNOWN,
        }
        i.rd = r_zr(rt);
        i.rt2 = r_zr(rt2);
    } else {
        i.size = match opc {
            0 => 4,
            1 => 8,
            2 => 16,
            _ => return UNKNOWN,
        };
        i.rd = r_v(rt);
        i.rt2 = r_v(rt2);
    }
    i.rn = r_sp(rn);
    i.imm = sext(imm7, 7) * (i.size as i64);
    i
}

/// size/opc/V of the "load/store register" classes -> (is_load, bytes, gpr width (0 = FP), signed)
fn ldst_kind(size: u32, v: u32, opc: u32) -> Option<(bool, u8, u8, bool)> {
    if v == 0 {
        let bytes = access_bytes(size);
        match opc {
            0 => Some((false, bytes, if size == 3 { 64 } else { 32 }, false)),
            1 => Some((true, bytes, if size == 3 { 64 } else { 32 }, false)),
            2 => {
                if size == 3 {
                    None // PRFM
                } else {
                    Some((true, bytes, 64, true))
                }
            }
            _ => {
                if size >= 2 {
                    None
                } else {
                    Some((true, bytes, 32, true))
                }
            }
        }
    } else {
        match opc {
            0 => Some((false, access_bytes(size), 0, false)),
            1 => Some((true, access_bytes(size), 0, false)),
            2 => {
                if size == 0 {
                    Some((false, 16, 0, false))
                } else {
                    None
                }
            }
            _ => {
                if size == 0 {
                    Some((true, 16, 0, false))
                } else {
                    None
                }
            }
        }
    }
}

fn log2_bytes(b: u8) -> i64 {
    match b {
        1 => 0,
        2 => 1,
        4 => 2,
        8 => 3,
        _ => 4,
    }
}

// size 111 V xx opc ...
fn ldst_reg(w: u32) -> Insn {
    let size = bits(w, 31, 30);
    let v = bit(w, 26);
    let opc = bits(w, 23, 22);
    let rn = bits(w, 9, 5);
    let rt = bits(w, 4, 0);
    if bit(w, 24) == 0 && bit(w, 21) == 1 && bits(w, 11, 10) == 0 {
        return ldst_atomic(w);
    }
    let (is_load, bytes, width, sign) = match ldst_kind(size, v, opc) {
        Some(k) => k,
        None => return UNKNOWN,
    };
    let mut i = Insn::new(Op::Unknown);
    i.size = bytes;
    i.sf = width;
    i.sign = sign;
    i.rd = if v == 1 { r_v(rt) } else { r_zr(rt) };
    i.rn = r_sp(rn);
    if bit(w, 24) == 1 {
        // unsigned immediate: size 111 V 01 opc imm12 Rn Rt
        i.op = if is_load { Op::LdrOff } else { Op::StrOff };
        i.imm = (bits(w, 21, 10) as i64) << log2_bytes(bytes);
        return i;
    }
    if bit(w, 21) == 0 {
        // size 111 V 00 opc 0 imm9 mode Rn Rt
        i.imm = sext(bits(w, 20, 12), 9);
        i.op = match (bits(w, 11, 10), is_load) {
            (0b00, true) => Op::Ldur,
            (0b00, false) => Op::Stur,
            (0b01, true) => Op::LdrPost,
            (0b01, false) => Op::StrPost,
            (0b11, true) => Op::LdrPre,
            (0b11, false) => Op::StrPre,
            _ => return UNKNOWN, // unprivileged
        };
        return i;
    }
    if bits(w, 11, 10) == 0b10 {
        // register offset: size 111 V 00 opc 1 Rm option S 10 Rn Rt
        let option = bits(w, 15, 13);
        if option & 0b010 == 0 {
            return UNKNOWN;
        }
        i.op = if is_load { Op::LdrReg } else { Op::StrReg };
        i.rm = r_zr(bits(w, 20, 16));
        i.opt = option as u8;
        i.imm2 = if bit(w, 12) == 1 { log2_bytes(bytes) } else { 0 };
        return i;
    }
    UNKNOWN
}

// size 111 V 00 A R 1 Rs o3 opc 00 Rn Rt
fn ldst_atomic(w: u32) -> Insn {
    if bit(w, 26) != 0 {
        return UNKNOWN;
    }
    let size = bits(w, 31, 30);
    let o3 = bit(w, 15);
    let opc = bits(w, 14, 12);
    let op = if o3 == 0 {
        match opc {
            0 => Op::Ldadd,
            1 => Op::Ldclr,
            2 => Op::Ldeor,
            3 => Op::Ldset,
            4 => Op::Ldsmax,
            5 => Op::Ldsmin,
            6 => Op::Ldumax,
            _ => Op::Ldumin,
        }
    } else if opc == 0 {
        Op::Swp
    } else {
        return UNKNOWN; // LDAPR, ST64B ...
    };
    let mut i = Insn::new(op);
    i.size = access_bytes(size);
    i.sf = if size == 3 { 64 } else { 32 };
    i.acq = bit(w, 23) == 1;
    i.rel = bit(w, 22) == 1;
    i.rs = r_zr(bits(w, 20, 16));
    i.rn = r_sp(bits(w, 9, 5));
    i.rd = r_zr(bits(w, 4, 0));
    i
}

// ---------------------------------------------------------------------------------------------
// C4.1 Data processing -- register
fn dp_reg(w: u32) -> Insn {
    let sf = bit(w, 31);
    let rd = bits(w, 4, 0);
    let rn = bits(w, 9, 5);
    let rm = bits(w, 20, 16);
    if bit(w, 28) == 0 {
        let imm6 = bits(w, 15, 10);
        let shift = bits(w, 23, 22);
        if bit(w, 24) == 0 {
            // Logical (shifted register): sf opc 01010 shift N Rm imm6 Rn Rd
            if sf == 0 && imm6 >= 32 {
                return UNKNOWN;
            }
            let mut i = Insn::new(match (bits(w, 30, 29), bit(w, 21)) {
                (0, 0) => Op::AndSh,
                (0, _) => Op::BicSh,
                (1, 0) => Op::OrrSh,
                (1, _) => Op::OrnSh,
                (2, 0) => Op::EorSh,
                (2, _) => Op::EonSh,
                (_, 0) => Op::AndsSh,
                _ => Op::BicsSh,
            });
            i.sf = sfw(sf);
            i.rd = r_zr(rd);
            i.rn = r_zr(rn);
            i.rm = r_zr(rm);
            i.opt = shift as u8;
            i.imm = imm6 as i64;
            return i;
        }
        let op = bit(w, 30);
        let s = bit(w, 29);
        if bit(w, 21) == 0 {
            // Add/subtract (shifted register): sf op S 01011 shift 0 Rm imm6 Rn Rd
            if shift == 3 || (sf == 0 && imm6 >= 32) {
                return UNKNOWN;
            }
            let mut i = Insn::new(match (op, s) {
                (0, 0) => Op::AddSh,
                (0, _) => Op::AddsSh,
                (1, 0) => Op::SubSh,
                _ => Op::SubsSh,
            });
            i.sf = sfw(sf);
            i.rd = r_zr(rd);
            i.rn = r_zr(rn);
            i.rm = r_zr(rm);
            i.opt = shift as u8;
            i.imm = imm6 as i64;
            return i;
        }
        // Add/subtract (extended register): sf op S 01011 opt 1 Rm option imm3 Rn Rd
        let imm3 = bits(w, 12, 10);
        if shift != 0 || imm3 > 4 {
            return UNKNOWN;
        }
        let mut i = Insn::new(match (op, s) {
            (0, 0) => Op::AddExt,
            (0, _) => Op::AddsExt,
            (1, 0) => Op::SubExt,
            _ => Op::SubsExt,
        });
        i.sf = sfw(sf);
        i.rd = if s == 0 { r_sp(rd) } else { r_zr(rd) };
        i.rn = r_sp(rn);
        i.rm = r_zr(rm);
        i.opt = bits(w, 15, 13) as u8;
        i.imm = imm3 as i64;
        return i;
    }
    // bit 28 = 1
    if bit(w, 24) == 1 {
        // Data-processing (3 source): sf op54 11011 op31 Rm o0 Ra Rn Rd
        if bits(w, 30, 29) != 0 {
            return UNKNOWN;
        }
        let ra = bits(w, 14, 10);
        let op = match (bits(w, 23, 21), bit(w, 15)) {
            (0b000, 0) => Op::Madd,
            (0b000, _) => Op::Msub,
            (0b001, 0) => Op::Smaddl,
            (0b001, _) => Op::Smsubl,
            (0b010, 0) => Op::Smulh,
            (0b101, 0) => Op::Umaddl,
            (0b101, _) => Op::Umsubl,
            (0b110, 0) => Op::Umulh,
            _ => return UNKNOWN,
        };
        let wide = !matches!(op, Op::Madd | Op::Msub);
        if wide && sf == 0 {
            return UNKNOWN;
        }
        let mut i = Insn::new(op);
        i.sf = sfw(sf);
        i.rd = r_zr(rd);
        i.rn = r_zr(rn);
        i.rm = r_zr(rm);
        if matches!(op, Op::Smulh | Op::Umulh) {
            if ra != 31 {
                return UNKNOWN;
            }
        } else {
            i.ra = r_zr(ra);
        }
        return i;
    }
    match bits(w, 23, 21) {
        0b000 => {
            // Add/subtract (with carry): sf op S 11010000 Rm 000000 Rn Rd
            if bits(w, 15, 10) != 0 {
                return UNKNOWN;
            }
            let mut i = Insn::new(match (bit(w, 30), bit(w, 29)) {
                (0, 0) => Op::Adc,
                (0, _) => Op::Adcs,
                (1, 0) => Op::Sbc,
                _ => Op::Sbcs,
            });
            i.sf = sfw(sf);
            i.rd = r_zr(rd);
            i.rn = r_zr(rn);
            i.rm = r_zr(rm);
            i
        }
        0b100 => {
            // Conditional select: sf op S 11010100 Rm cond op2 Rn Rd
            if bit(w, 29) != 0 || bit(w, 11) != 0 {
                return UNKNOWN;
            }
            let mut i = Insn::new(match (bit(w, 30), bit(w, 10)) {
                (0, 0) => Op::Csel,
                (0, _) => Op::Csinc,
                (1, 0) => Op::Csinv,
                _ => Op::Csneg,
            });
            i.sf = sfw(sf);
            i.rd = r_zr(rd);
            i.rn = r_zr(rn);
            i.rm = r_zr(rm);
            i.cond = bits(w, 15, 12) as u8;
            i
        }
        0b110 => {
            if bit(w, 29) != 0 {
                return UNKNOWN;
            }
            let opcode = bits(w, 15, 10);
            if bit(w, 30) == 0 {
                // Data-processing (2 source): sf 0 S 11010110 Rm opcode Rn Rd
                let op = match opcode {
                    0b000010 => Op::Udiv,
                    0b000011 => Op::Sdiv,
                    0b001000 => Op::Lslv,
                    0b001001 => Op::Lsrv,
                    0b001010 => Op::Asrv,
                    0b001011 => Op::Rorv,
                    _ => return UNKNOWN,
                };
                let mut i = Insn::new(op);
                i.sf = sfw(sf);
                i.rd = r_zr(rd);
                i.rn = r_zr(rn);
                i.rm = r_zr(rm);
                i
            } else {
                // Data-processing (1 source): sf 1 S 11010110 opcode2 opcode Rn Rd
                if rm != 0 {
                    return UNKNOWN;
                }
                let op = match (opcode, sf) {
                    (0b000000, _) => Op::Rbit,
                    (0b000001, _) => Op::Rev16,
                    (0b000010, 0) => Op::Rev,
                    (0b000010, _) => Op::Rev32,
                    (0b000011, 1) => Op::Rev,
                    (0b000100, _) => Op::Clz,
                    (0b000101, _) => Op::Cls,
                    _ => return UNKNOWN,
                };
                let mut i = Insn::new(op);
                i.sf = sfw(sf);
                i.rd = r_zr(rd);
                i.rn = r_zr(rn);
                i
            }
        }
        _ => UNKNOWN, // conditional compare, rotate-into-flags ...
    }
}

// ---------------------------------------------------------------------------------------------
// C4.1 Data processing -- scalar floating-point and Advanced SIMD
fn fp_bytes(ftype: u32) -> Option<u8> {
    match ftype {
        0b00 => Some(4),
        0b01 => Some(8),
        0b11 => Some(2),
        _ => None,
    }
}

fn simd_fp(w: u32) -> Insn {
    let rd = bits(w, 4, 0);
    let rn = bits(w, 9, 5);
    let rm = bits(w, 20, 16);
    // Advanced SIMD two-register misc / across lanes: 0 Q U 01110 size 1x000 opcode 10 Rn Rd
    if bit(w, 31) == 0 && bits(w, 28, 24) == 0b01110 && bits(w, 11, 10) == 0b10 {
        let q = bit(w, 30);
        let u = bit(w, 29);
        let size = bits(w, 23, 22);
        let opcode = bits(w, 16, 12);
        let grp = bits(w, 21, 17);
        let mut i;
        if grp == 0b10000 {
            if u == 0 && opcode == 0b00101 && size == 0 {
                i = Insn::new(Op::Cnt);
            } else {
                return UNKNOWN;
            }
        } else if grp == 0b11000 {
            let op = match (u, opcode) {
                (0, 0b11011) => Op::Addv,
                (0, 0b00011) => Op::Saddlv,
                (1, 0b00011) => Op::Uaddlv,
                _ => return UNKNOWN,
            };
            if size == 3 || (size == 2 && q == 0) {
                return UNKNOWN;
            }
            i = Insn::new(op);
        } else {
            return UNKNOWN;
        }
        i.size = access_bytes(size);
        i.opt = q as u8;
        i.rd = r_v(rd);
        i.rn = r_v(rn);
        return i;
    }
    // scalar FP: M 0 S 11110 ftype 1 ...
    if bits(w, 28, 24) != 0b11110 || bit(w, 30) != 0 || bit(w, 21) != 1 || bit(w, 29) != 0 {
        return UNKNOWN;
    }
    let prec = match fp_bytes(bits(w, 23, 22)) {
        Some(b) => b,
        None => return UNKNOWN,
    };
    if bits(w, 15, 10) == 0 {
        // Conversion between floating-point and integer: sf 0 S 11110 ftype 1 rmode opcode 000000 Rn Rd
        let sf = bit(w, 31);
        let op = match (bits(w, 20, 19), bits(w, 18, 16)) {
            (0, 0) => Op::Fcvtns,
            (0, 1) => Op::Fcvtnu,
            (0, 2) => Op::Scvtf,
            (0, 3) => Op::Ucvtf,
            (0, 4) => Op::Fcvtas,
            (0, 5) => Op::Fcvtau,
            (0, 6) => Op::FmovToGpr,
            (0, 7) => Op::FmovToFpr,
            (1, 0) => Op::Fcvtps,
            (1, 1) => Op::Fcvtpu,
            (2, 0) => Op::Fcvtms,
            (2, 1) => Op::Fcvtmu,
            (3, 0) => Op::Fcvtzs,
            (3, 1) => Op::Fcvtzu,
            _ => return UNKNOWN,
        };
        let mut i = Insn::new(op);
        i.sf = sfw(sf);
        i.size = prec;
        match op {
            Op::FmovToGpr | Op::FmovToFpr => {
                // S <-> W, D <-> X, H <-> W/X
                let ok = (prec == 4 && sf == 0) || (prec == 8 && sf == 1) || prec == 2;
                if !ok {
                    return UNKNOWN;
                }
            }
            _ => {}
        }
        match op {
            Op::Scvtf | Op::Ucvtf | Op::FmovToFpr => {
                i.rd = r_v(rd);
                i.rn = r_zr(rn);
            }
            _ => {
                i.rd = r_zr(rd);
                i.rn = r_v(rn);
            }
        }
        return i;
    }
    if bit(w, 31) != 0 {
        return UNKNOWN;
    }
    if bits(w, 14, 10) == 0b10000 {
        // Floating-point data-processing (1 source): 0 0 0 11110 ftype 1 opcode 10000 Rn Rd
        let opcode = bits(w, 20, 15);
        let mut i = Insn::new(Op::Unknown);
        i.size = prec;
        i.rd = r_v(rd);
        i.rn = r_v(rn);
        i.op = match opcode {
            0b000000 => Op::Fmov,
            0b000001 => Op::Fabs,
            0b000010 => Op::Fneg,
            0b000011 => Op::Fsqrt,
            0b000100 | 0b000101 | 0b000111 => {
                let dst = match fp_bytes(opcode & 3) {
                    Some(b) => b,
                    None => return UNKNOWN,
                };
                if dst == prec {
                    return UNKNOWN;
                }
                i.imm2 = dst as i64;
                Op::Fcvt
            }
            0b001000 => Op::Frintn,
            0b001001 => Op::Frintp,
            0b001010 => Op::Frintm,
            0b001011 => Op::Frintz,
            0b001100 => Op::Frinta,
            0b001110 => Op::Frintx,
            0b001111 => Op::Frinti,
            _ => return UNKNOWN,
        };
        return i;
    }
    if bits(w, 13, 10) == 0b1000 {
        // Floating-point compare: 0 0 0 11110 ftype 1 Rm op 1000 Rn opcode2
        if bits(w, 15, 14) != 0 {
            return UNKNOWN;
        }
        let opcode2 = bits(w, 4, 0);
        if opcode2 & 0b00111 != 0 {
            return UNKNOWN;
        }
        let mut i = Insn::new(if opcode2 & 0b10000 != 0 { Op::Fcmpe } else { Op::Fcmp });
        i.size = prec;
        i.rn = r_v(rn);
        if opcode2 & 0b01000 != 0 {
            if rm != 0 {
                return UNKNOWN;
            }
        } else {
            i.rm = r_v(rm);
        }
        return i;
    }
    match bits(w, 11, 10) {
        0b10 => {
            // Floating-point data-processing (2 source): 0 0 0 11110 ftype 1 Rm opcode 10 Rn Rd
            let op = match bits(w, 15, 12) {
                0b0000 => Op::Fmul,
                0b0001 => Op::Fdiv,
                0b0010 => Op::Fadd,
                0b0011 => Op::Fsub,
                0b0100 => Op::Fmax,
                0b0101 => Op::Fmin,
                0b0110 => Op::Fmaxnm,
                0b0111 => Op::Fminnm,
                0b1000 => Op::Fnmul,
                _ => return UNKNOWN,
            };
            let mut i = Insn::new(op);
            i.size = prec;
            i.rd = r_v(rd);
            i.rn = r_v(rn);
            i.rm = r_v(rm);
            i
        }
        0b11 => {
            // Floating-point conditional select: 0 0 0 11110 ftype 1 Rm cond 11 Rn Rd
            let mut i = Insn::new(Op::Fcsel);
            i.size = prec;
            i.rd = r_v(rd);
            i.rn = r_v(rn);
            i.rm = r_v(rm);
            i.cond = bits(w, 15, 12) as u8;
            i
        }
        _ => UNKNOWN, // FP immediate, conditional compare
    }
}

// ---------------------------------------------------------------------------------------------
// Rendering in llvm-mc (AArch64, generic syntax, canonical non-alias mnemonics) -- oracle self-test only
#[cfg(not(kani))]
pub fn render(i: &Insn) -> String {
    fn g(r: R, width: u8) -> String {
        let p = if width == 64 { "x" } else { "w" };
        match r {
            R::X(n) => format!("{}{}", p, n),
            R::Zr => format!("{}zr", p),
            R::Sp => (if width == 64 { "sp" } else { "wsp" }).to_string(),
            R::V(n) => format!("v{}", n),
            R::None => "<none>".to_string(),
        }
    }
    fn f(r: R, bytes: u8) -> String {
        let p = match bytes {
            1 => "b",
            2 => "h",
            4 => "s",
            8 => "d",
            _ => "q",
        };
        match r {
            R::V(n) => format!("{}{}", p, n),
            other => g(other, 64),
        }
    }
    fn cc(c: u8) -> &'static str {
        ["eq", "ne", "hs", "lo", "mi", "pl", "vs", "vc", "hi", "ls", "ge", "lt", "gt", "le", "al", "nv"][(c & 15) as usize]
    }
    fn sh(t: u8) -> &'static str {
        ["lsl", "lsr", "asr", "ror"][(t & 3) as usize]
    }
    fn ext(t: u8) -> &'static str {
        ["uxtb", "uxth", "uxtw", "uxtx", "sxtb", "sxth", "sxtw", "sxtx"][(t & 7) as usize]
    }
    let w = i.sf;
    let name = format!("{:?}", i.op).to_lowercase();
    use Op::*;
    match i.op {
        Unknown => "<unknown>".to_string(),
        AddImm | AddsImm | SubImm | SubsImm => {
            let m = &name[..name.len() - 3];
            if i.imm != 0 && i.imm & 0xfff == 0 {
                format!("{} {}, {}, #{}, lsl #12", m, g(i.rd, w), g(i.rn, w), i.imm >> 12)
            } else {
                format!("{} {}, {}, #{}", m, g(i.rd, w), g(i.rn, w), i.imm)
            }
        }
        AndImm | OrrImm | EorImm | AndsImm => {
            format!("{} {}, {}, #0x{:x}", &name[..name.len() - 3], g(i.rd, w), g(i.rn, w), i.imm as u64)
        }
        Movn | Movz | Movk => {
            if i.imm2 == 0 {
                format!("{} {}, #{}", name, g(i.rd, w), i.imm)
            } else {
                format!("{} {}, #{}, lsl #{}", name, g(i.rd, w), i.imm, i.imm2)
            }
        }
        Sbfm | Bfm | Ubfm => format!("{} {}, {}, #{}, #{}", name, g(i.rd, w), g(i.rn, w), i.imm, i.imm2),
        Extr => format!("extr {}, {}, {}, #{}", g(i.rd, w), g(i.rn, w), g(i.rm, w), i.imm),
        Adr | Adrp => format!("{} {}, #{}", name, g(i.rd, 64), i.imm),
        B | Bl => format!("{} #{}", name, i.imm),
        BCond => format!("b.{} #{}", cc(i.cond), i.imm),
        Cbz | Cbnz => format!("{} {}, #{}", name, g(i.rd, w), i.imm),
        Tbz | Tbnz => format!("{} {}, #{}, #{}", name, g(i.rd, w), i.imm2, i.imm),
        Br | Blr | Ret => format!("{} {}", name, g(i.rn, 64)),
        Svc | Hvc | Smc | Brk | Hlt => format!("{} #{}", name, i.imm),
        Hint => format!("hint #{}", i.imm),
        Clrex | Dsb | Dmb | Isb => format!("{} #{}", name, i.imm),
        AddSh | AddsSh | SubSh | SubsSh | AndSh | BicSh | OrrSh | OrnSh | EorSh | EonSh | AndsSh | BicsSh => {
            let m = &name[..name.len() - 2];
            if i.imm == 0 && i.opt == 0 {
                format!("{} {}, {}, {}", m, g(i.rd, w), g(i.rn, w), g(i.rm, w))
            } else {
                format!("{} {}, {}, {}, {} #{}", m, g(i.rd, w), g(i.rn, w), g(i.rm, w), sh(i.opt), i.imm)
            }
        }
        AddExt | AddsExt | SubExt | SubsExt => {
            let m = &name[..name.len() - 3];
            let mw = if w == 64 && (i.opt & 3) == 3 { 64 } else { 32 };
            format!("{} {}, {}, {}, {} #{}", m, g(i.rd, w), g(i.rn, w), g(i.rm, mw), ext(i.opt), i.imm)
        }
        Adc | Adcs | Sbc | Sbcs | Udiv | Sdiv | Lslv | Lsrv | Asrv | Rorv => {
            format!("{} {}, {}, {}", name, g(i.rd, w), g(i.rn, w), g(i.rm, w))
        }
        Csel | Csinc | Csinv | Csneg => {
            format!("{} {}, {}, {}, {}", name, g(i.rd, w), g(i.rn, w), g(i.rm, w), cc(i.cond))
        }
        Rbit | Rev16 | Rev32 | Rev | Clz | Cls => format!("{} {}, {}", name, g(i.rd, w), g(i.rn, w)),
        Madd | Msub => format!("{} {}, {}, {}, {}", name, g(i.rd, w), g(i.rn, w), g(i.rm, w), g(i.ra, w)),
        Smaddl | Smsubl | Umaddl | Umsubl => {
            format!("{} {}, {}, {}, {}", name, g(i.rd, 64), g(i.rn, 32), g(i.rm, 32), g(i.ra, 64))
        }
        Smulh | Umulh => format!("{} {}, {}, {}", name, g(i.rd, 64), g(i.rn, 64), g(i.rm, 64)),
        LdrOff | StrOff | Ldur | Stur | LdrPre | StrPre | LdrPost | StrPost | LdrReg | StrReg | LdrLit => {
            let load = matches!(i.op, LdrOff | Ldur | LdrPre | LdrPost | LdrReg | LdrLit);
            let unscaled = matches!(i.op, Ldur | Stur);
            let base = if load { if unscaled { "ldur" } else { "ldr" } } else if unscaled { "stur" } else { "str" };
            let isv = matches!(i.rd, R::V(_));
            let suffix = if isv {
                ""
            } else {
                match (i.size, i.sign) {
                    (1, false) => "b",
                    (1, true) => "sb",
                    (2, false) => "h",
                    (2, true) => "sh",
                    (4, true) => "sw",
                    _ => "",
                }
            };
            let rt = if isv { f(i.rd, i.size) } else { g(i.rd, w) };
            let m = format!("{}{}", base, suffix);
            match i.op {
                LdrOff | StrOff | Ldur | Stur => format!("{} {}, [{}, #{}]", m, rt, g(i.rn, 64), i.imm),
                LdrPre | StrPre => format!("{} {}, [{}, #{}]!", m, rt, g(i.rn, 64), i.imm),
                LdrPost | StrPost => format!("{} {}, [{}], #{}", m, rt, g(i.rn, 64), i.imm),
                LdrLit => format!("{} {}, #{}", m, rt, i.imm),
                _ => {
                    let mw = if i.opt & 1 == 1 { 64 } else { 32 };
                    let e = if i.opt == 3 { "lsl" } else { ext(i.opt) };
                    if i.imm2 == 0 && i.opt == 3 {
                        format!("{} {}, [{}, {}]", m, rt, g(i.rn, 64), g(i.rm, mw))
                    } else if i.imm2 == 0 {
                        format!("{} {}, [{}, {}, {}]", m, rt, g(i.rn, 64), g(i.rm, mw), e)
                    } else {
                        format!("{} {}, [{}, {}, {} #{}]", m, rt, g(i.rn, 64), g(i.rm, mw), e, i.imm2)
                    }
                }
            }
        }
        LdpOff | StpOff | LdpPre | StpPre | LdpPost | StpPost | Ldnp | Stnp => {
            let isv = matches!(i.rd, R::V(_));
            let (a, b) = if isv { (f(i.rd, i.size), f(i.rt2, i.size)) } else { (g(i.rd, w), g(i.rt2, w)) };
            let m = match i.op {
                Ldnp => "ldnp",
                Stnp => "stnp",
                LdpOff | LdpPre | LdpPost => if i.sign { "ldpsw" } else { "ldp" },
                _ => "stp",
            };
            match i.op {
                LdpPre | StpPre => format!("{} {}, {}, [{}, #{}]!", m, a, b, g(i.rn, 64), i.imm),
                LdpPost | StpPost => format!("{} {}, {}, [{}], #{}", m, a, b, g(i.rn, 64), i.imm),
                _ => format!("{} {}, {}, [{}, #{}]", m, a, b, g(i.rn, 64), i.imm),
            }
        }
        Ldxr | Ldaxr | Ldar | Ldlar | Stlr | Stllr => {
            let sfx = match i.size { 1 => "b", 2 => "h", _ => "" };
            format!("{}{} {}, [{}]", name, sfx, g(i.rd, w), g(i.rn, 64))
        }
        Stxr | Stlxr => {
            let sfx = match i.size { 1 => "b", 2 => "h", _ => "" };
            format!("{}{} {}, {}, [{}]", name, sfx, g(i.rs, 32), g(i.rd, w), g(i.rn, 64))
        }
        Cas | Ldadd | Ldclr | Ldeor | Ldset | Ldsmax | Ldsmin | Ldumax | Ldumin | Swp => {
            let ar = match (i.acq, i.rel) { (false, false) => "", (true, false) => "a", (false, true) => "l", _ => "al" };
            let sfx = match i.size { 1 => "b", 2 => "h", _ => "" };
            format!("{}{}{} {}, {}, [{}]", name, ar, sfx, g(i.rs, w), g(i.rd, w), g(i.rn, 64))
        }
        Fmov | Fabs | Fneg | Fsqrt | Frintn | Frintp | Frintm | Frintz | Frinta | Frintx | Frinti => {
            format!("{} {}, {}", name, f(i.rd, i.size), f(i.rn, i.size))
        }
        Fcvt => format!("fcvt {}, {}", f(i.rd, i.imm2 as u8), f(i.rn, i.size)),
        Fmul | Fdiv | Fadd | Fsub | Fmax | Fmin | Fmaxnm | Fminnm | Fnmul => {
            format!("{} {}, {}, {}", name, f(i.rd, i.size), f(i.rn, i.size), f(i.rm, i.size))
        }
        Fcmp | Fcmpe => match i.rm {
            R::None => format!("{} {}, #0.0", name, f(i.rn, i.size)),
            _ => format!("{} {}, {}", name, f(i.rn, i.size), f(i.rm, i.size)),
        },
        Fcsel => format!("fcsel {}, {}, {}, {}", f(i.rd, i.size), f(i.rn, i.size), f(i.rm, i.size), cc(i.cond)),
        Scvtf | Ucvtf => format!("{} {}, {}", name, f(i.rd, i.size), g(i.rn, w)),
        FmovToFpr => format!("fmov {}, {}", f(i.rd, i.size), g(i.rn, w)),
        FmovToGpr => format!("fmov {}, {}", g(i.rd, w), f(i.rn, i.size)),
        Fcvtns | Fcvtnu | Fcvtas | Fcvtau | Fcvtps | Fcvtpu | Fcvtms | Fcvtmu | Fcvtzs | Fcvtzu => {
            format!("{} {}, {}", name, g(i.rd, w), f(i.rn, i.size))
        }
        Cnt | Addv | Saddlv | Uaddlv => {
            let lanes = (if i.opt == 1 { 16 } else { 8 }) / (i.size as u32).max(1);
            let el = match i.size { 1 => "b", 2 => "h", 4 => "s", _ => "d" };
            let rn = match i.rn { R::V(n) => format!("v{}.{}{}", n, lanes, el), o => g(o, 64) };
            match i.op {
                Cnt => {
                    let rd = match i.rd { R::V(n) => format!("v{}.{}{}", n, lanes, el), o => g(o, 64) };
                    format!("cnt {}, {}", rd, rn)
                }
                Addv => format!("addv {}, {}", f(i.rd, i.size), rn),
                _ => format!("{} {}, {}", name, f(i.rd, i.size * 2), rn),
            }
        }
    }
}
