//! a64dec — reference decoder for the A64 instructions the dora assembler offers.
//! Written from the Arm ARM (C4 "A64 instruction set encoding", C6 instruction pages),
//! NOT from dora-asm/src/arm64.rs. Loop-free; total on u32.
#![allow(dead_code)]

/// A register operand as the instruction class reads register number 31.
#[derive(Copy, Clone, PartialEq, Eq, Debug)]
pub enum R {
    X(u8), // x0..x30 / w0..w30 (width is Insn::sf)
    Zr,
    Sp,
    None,
}

#[derive(Copy, Clone, PartialEq, Eq, Debug)]
pub enum Op {
    Unknown,
    AddImm,  // ADD  <Rd|SP>, <Rn|SP>, #imm12, LSL #sh
    AddsImm, // ADDS <Rd>, <Rn|SP>, #imm  (CMN alias when Rd = ZR)
    SubImm,
    SubsImm,
}

/// Flat decoded form. Unused fields keep their `Insn::new` value.
#[derive(Copy, Clone, PartialEq, Eq, Debug)]
pub struct Insn {
    pub op: Op,
    pub sf: u8, // operand size 32 / 64 (0 if not applicable)
    pub rd: R,
    pub rn: R,
    pub rm: R,
    pub ra: R,
    pub imm: i64,  // primary immediate, fully decoded (shifted / scaled / sign-extended)
    pub imm2: i64, // secondary immediate (shift amount, lsb, ...)
    pub cond: u8,
    pub opt: u8, // shift type / extend option / misc
}

impl Insn {
    pub const fn new(op: Op) -> Insn {
        Insn { op, sf: 0, rd: R::None, rn: R::None, rm: R::None, ra: R::None, imm: 0, imm2: 0, cond: 0, opt: 0 }
    }
}

fn bits(w: u32, hi: u32, lo: u32) -> u32 {
    (w >> lo) & ((1u32 << (hi - lo + 1)) - 1)
}
fn r_sp(n: u32) -> R {
    if n == 31 { R::Sp } else { R::X(n as u8) }
}
fn r_zr(n: u32) -> R {
    if n == 31 { R::Zr } else { R::X(n as u8) }
}

pub fn decode(w: u32) -> Insn {
    // C4.1.86 Data Processing -- Immediate: op0 = bits 28:26 = 100
    if bits(w, 28, 26) == 0b100 {
        // Add/subtract (immediate): bits 25:23 = 010
        if bits(w, 25, 23) == 0b010 {
            let sf = bits(w, 31, 31);
            let op = bits(w, 30, 30);
            let s = bits(w, 29, 29);
            let sh = bits(w, 22, 22);
            let imm12 = bits(w, 21, 10) as i64;
            let mut i = Insn::new(match (op, s) {
                (0, 0) => Op::AddImm,
                (0, _) => Op::AddsImm,
                (1, 0) => Op::SubImm,
                _ => Op::SubsImm,
            });
            i.sf = if sf == 1 { 64 } else { 32 };
            i.rn = r_sp(bits(w, 9, 5));
            i.rd = if s == 0 { r_sp(bits(w, 4, 0)) } else { r_zr(bits(w, 4, 0)) };
            i.imm = if sh == 1 { imm12 << 12 } else { imm12 };
            return i;
        }
    }
    Insn::new(Op::Unknown)
}
