//! x64dec — reference decoder for the x86-64 instructions the dora assembler offers.
//! Written from the Intel SDM vol. 2 (ch. 2 instruction format, ch. 3-5 instruction pages,
//! appendix A opcode maps), NOT from dora-asm/src/x64.rs. Loop-free, total on byte slices
//! (every read is bounds-checked), no allocation.
//!
//! Normal form (encodings that mean the same instruction decode to the same `Insn`):
//!  * operands are in Intel order: ops[0] = destination / first operand;
//!  * `op r/m, r` and `op r, r/m` with a register r/m give the same Insn;
//!  * disp8 and disp32 of the same value give the same Mem; a SIB byte without index gives
//!    index = -1, scale = 1; mod=00 base=101 gives base = -1;
//!  * immediates are stored sign-extended from the operand size to i64 (an imm8 of a
//!    sign-extending form is first extended to the operand size); shift counts and the
//!    rounding-mode byte are stored zero-extended;
//!  * 8-bit registers: num 0..15 = al cl dl bl spl bpl sil dil r8b..r15b, num 20..23 = ah ch dh bh
//!    (what reg field 4..7 means when no REX prefix is present);
//!  * REX.W on byte-sized / fixed-size / SSE (WIG) instructions, and unused REX.R/X/B, are ignored
//!    as the processor ignores them; a 66 prefix where it is not defined decodes to None.
#![allow(dead_code)]

#[derive(Copy, Clone, PartialEq, Eq, Debug)]
pub enum Mn {
    Unknown,
    Add, Or, Adc, Sbb, And, Sub, Xor, Cmp,
    Mov, Movzx, Movsx, Movsxd, Lea, Test, Xchg, Cmpxchg, Xadd,
    Imul, Mul, Idiv, Div, Neg, Not, Inc, Dec,
    Rol, Ror, Rcl, Rcr, Shl, Shr, Sar,
    Setcc, Cmovcc, Jcc, Jmp, Call, Push, Pop, Ret, Int3, Nop,
    Cbw, // 98: cbw / cwde / cdqe by opsize
    Cwd, // 99: cwd / cdq / cqo by opsize
    Popcnt, Lzcnt, Tzcnt, Bsr, Bsf,
    Mfence, Lfence, Sfence,
    // SSE / AVX (vex = true for the VEX-encoded form)
    Movups, Movupd, Movss, Movsd, Movaps, Movapd, Movd, Movq,
    Cvtsi2ss, Cvtsi2sd, Cvttss2si, Cvttsd2si, Cvtss2si, Cvtsd2si, Cvtss2sd, Cvtsd2ss,
    Ucomiss, Ucomisd, Comiss, Comisd,
    Sqrtps, Sqrtpd, Sqrtss, Sqrtsd,
    Andps, Andpd, Andnps, Andnpd, Orps, Orpd, Xorps, Xorpd,
    Addps, Addpd, Addss, Addsd,
    Mulps, Mulpd, Mulss, Mulsd,
    Subps, Subpd, Subss, Subsd,
    Minps, Minpd, Minss, Minsd,
    Divps, Divpd, Divss, Divsd,
    Maxps, Maxpd, Maxss, Maxsd,
    Pxor, Roundss, Roundsd,
}

#[derive(Copy, Clone, PartialEq, Eq, Debug)]
pub enum Operand {
    None,
    Gpr { num: u8, size: u8 },
    Xmm(u8),
    /// base / index: register number or -1; scale 1/2/4/8 (1 when no index); rip: RIP-relative
    Mem { base: i8, index: i8, scale: u8, disp: i32, rip: bool, size: u8 },
    Imm(i64),
    Rel(i32),
    /// never produced by the decoder: a requested immediate that the operand size cannot represent
    Unencodable,
}

#[derive(Copy, Clone, PartialEq, Eq, Debug)]
pub struct Insn {
    pub mn: Mn,
    /// integer: operand size 8/16/32/64 (destination size for movzx/movsx/movsxd/lea; 64 for
    /// push/pop/indirect call/jmp; 0 for rel branches, ret, int3, nop, fences).
    /// SSE: 128; VEX: 128 (VEX.L=0) or 256 (VEX.L=1).
    pub opsize: u16,
    pub ops: [Operand; 4],
    pub nops: u8,
    pub lock: bool,
    /// an F2/F3 prefix that is not part of the opcode (0 otherwise)
    pub rep: u8,
    /// condition code of jcc / setcc / cmovcc (0 otherwise)
    pub cc: u8,
    pub vex: bool,
}

pub const CL: Operand = Operand::Gpr { num: 1, size: 8 };

impl Insn {
    pub const fn new(mn: Mn, opsize: u16) -> Insn {
        Insn { mn, opsize, ops: [Operand::None; 4], nops: 0, lock: false, rep: 0, cc: 0, vex: false }
    }
    pub const fn op0(mn: Mn, opsize: u16) -> Insn {
        Insn::new(mn, opsize)
    }
    pub const fn op1(mn: Mn, opsize: u16, a: Operand) -> Insn {
        let mut i = Insn::new(mn, opsize);
        i.ops[0] = a;
        i.nops = 1;
        i
    }
    pub const fn op2(mn: Mn, opsize: u16, a: Operand, b: Operand) -> Insn {
        let mut i = Insn::new(mn, opsize);
        i.ops[0] = a;
        i.ops[1] = b;
        i.nops = 2;
        i
    }
    pub const fn op3(mn: Mn, opsize: u16, a: Operand, b: Operand, c: Operand) -> Insn {
        let mut i = Insn::new(mn, opsize);
        i.ops[0] = a;
        i.ops[1] = b;
        i.ops[2] = c;
        i.nops = 3;
        i
    }
    pub const fn op4(mn: Mn, opsize: u16, a: Operand, b: Operand, c: Operand, d: Operand) -> Insn {
        let mut i = Insn::new(mn, opsize);
        i.ops[0] = a;
        i.ops[1] = b;
        i.ops[2] = c;
        i.ops[3] = d;
        i.nops = 4;
        i
    }
    pub const fn with_cc(mut self, cc: u8) -> Insn {
        self.cc = cc;
        self
    }
    pub const fn with_lock(mut self) -> Insn {
        self.lock = true;
        self
    }
    pub const fn with_vex(mut self) -> Insn {
        self.vex = true;
        self
    }
}

/// general register `num` (0..15) seen with operand size `size`
pub const fn gpr(num: u8, size: u8) -> Operand {
    Operand::Gpr { num, size }
}
pub const fn mem(base: i8, index: i8, scale: u8, disp: i32, size: u8) -> Operand {
    Operand::Mem { base, index, scale: if index < 0 { 1 } else { scale }, disp, rip: false, size }
}
pub const fn mem_rip(disp: i32, size: u8) -> Operand {
    Operand::Mem { base: -1, index: -1, scale: 1, disp, rip: true, size }
}
/// the same memory operand with another access size
pub fn mem_sized(m: Operand, size: u8) -> Operand {
    match m {
        Operand::Mem { base, index, scale, disp, rip, size: _ } => Operand::Mem { base, index, scale, disp, rip, size },
        o => o,
    }
}
/// How a caller's i64 immediate is represented for an operand of `size` bits: the value must be
/// representable in `size` bits (as a signed or as an unsigned quantity — both readings denote the
/// same `size`-bit operand); the normal form is the sign-extension of those `size` bits.
pub fn imm_for(v: i64, size: u8) -> Operand {
    match size {
        8 => {
            if v >= -128 && v <= 255 { Operand::Imm(v as u8 as i8 as i64) } else { Operand::Unencodable }
        }
        16 => {
            if v >= -32768 && v <= 65535 { Operand::Imm(v as u16 as i16 as i64) } else { Operand::Unencodable }
        }
        32 => {
            if v >= -2147483648 && v <= 4294967295 { Operand::Imm(v as u32 as i32 as i64) } else { Operand::Unencodable }
        }
        _ => Operand::Imm(v),
    }
}
/// a shift count / rounding mode byte: the imm8 bit pattern, zero-extended. Like imm_for, a requested value is
/// identified with its 8-bit pattern (-1 and 255 are the same imm8; the hardware masks a shift count to 5/6 bits anyway).
pub fn imm_u8_for(v: i64) -> Operand {
    if v >= -128 && v <= 255 { Operand::Imm((v as u8) as i64) } else { Operand::Unencodable }
}

// ------------------------------------------------------------------------------------------------

/// Cursor over the first 16 bytes of the code (an x86 instruction is at most 15 bytes long), held in
/// a shift register: reading a byte is `w as u8; w >>= 8` — no indexing with a computed position,
/// which keeps the decoder cheap for the bit-level verifier. Bytes beyond the slice read as 0 and
/// make the decode fail at the end (`n > len`).
struct Cur {
    w: u128,
    n: u8,   // bytes consumed
    len: u8, // bytes available (<= 16)
}

fn load16(code: &[u8]) -> Cur {
    let l = code.len();
    let mut w: u128 = 0;
    if l > 0 { w |= code[0] as u128; }
    if l > 1 { w |= (code[1] as u128) << 8; }
    if l > 2 { w |= (code[2] as u128) << 16; }
    if l > 3 { w |= (code[3] as u128) << 24; }
    if l > 4 { w |= (code[4] as u128) << 32; }
    if l > 5 { w |= (code[5] as u128) << 40; }
    if l > 6 { w |= (code[6] as u128) << 48; }
    if l > 7 { w |= (code[7] as u128) << 56; }
    if l > 8 { w |= (code[8] as u128) << 64; }
    if l > 9 { w |= (code[9] as u128) << 72; }
    if l > 10 { w |= (code[10] as u128) << 80; }
    if l > 11 { w |= (code[11] as u128) << 88; }
    if l > 12 { w |= (code[12] as u128) << 96; }
    if l > 13 { w |= (code[13] as u128) << 104; }
    if l > 14 { w |= (code[14] as u128) << 112; }
    if l > 15 { w |= (code[15] as u128) << 120; }
    Cur { w, n: 0, len: if l > 16 { 16 } else { l as u8 } }
}

impl Cur {
    fn u8(&mut self) -> u8 {
        let b = self.w as u8;
        self.w >>= 8;
        self.n = self.n.wrapping_add(1);
        b
    }
    fn i8(&mut self) -> i64 {
        self.u8() as i8 as i64
    }
    fn i16(&mut self) -> i64 {
        let v = self.w as u16 as i16 as i64;
        self.w >>= 16;
        self.n = self.n.wrapping_add(2);
        v
    }
    fn i32(&mut self) -> i32 {
        let v = self.w as u32 as i32;
        self.w >>= 32;
        self.n = self.n.wrapping_add(4);
        v
    }
    fn i64(&mut self) -> i64 {
        let v = self.w as u64 as i64;
        self.w >>= 64;
        self.n = self.n.wrapping_add(8);
        v
    }
    /// immediate of the "imm16/32" column: imm16 for 16-bit, imm32 for 32-bit, imm32 sign-extended for 64-bit
    fn imm_z(&mut self, osz: u8) -> i64 {
        if osz == 16 { self.i16() } else { self.i32() as i64 }
    }
}

/// prefix / escape state common to legacy and VEX encodings
#[derive(Copy, Clone)]
struct Ctx {
    p66: bool,
    rep: u8, // 0, 0xF2, 0xF3 (last one seen)
    lock: bool,
    rexp: bool, // a REX prefix is present (changes the meaning of 8-bit register numbers 4..7)
    w: bool,
    r: bool,
    x: bool,
    b: bool,
    vex: bool,
    l: bool,
    v: u8,  // VEX.vvvv, already un-inverted (0 when unused / 1111b)
    pp: u8, // SIMD prefix: 0 none, 1 = 66, 2 = F3, 3 = F2
    sse_bad: bool, // legacy: 66 together with F2/F3 (undefined for SSE opcodes)
}

#[derive(Copy, Clone)]
struct ModRm {
    md: u8,
    reg: u8, // with REX.R / VEX.R
    is_reg: bool,
    rm: u8, // register number with REX.B (only when is_reg)
    base: i8,
    index: i8,
    scale: u8,
    disp: i32,
    rip: bool,
}

fn modrm(c: &mut Cur, x: &Ctx) -> ModRm {
    let m = c.u8();
    let md = m >> 6;
    let reg = ((m >> 3) & 7) | ((x.r as u8) << 3);
    let rm = m & 7;
    let bbit = (x.b as u8) << 3;
    let mut o = ModRm { md, reg, is_reg: false, rm: 0, base: -1, index: -1, scale: 1, disp: 0, rip: false };
    if md == 3 {
        o.is_reg = true;
        o.rm = rm | bbit;
        return o;
    }
    if rm == 4 {
        // SIB byte follows (SDM table 2-3)
        let sib = c.u8();
        let ss = sib >> 6;
        let idx = ((sib >> 3) & 7) | ((x.x as u8) << 3);
        let bs = sib & 7;
        if idx != 4 {
            o.index = idx as i8;
            o.scale = 1u8 << ss;
        }
        if bs == 5 && md == 0 {
            o.base = -1;
            o.disp = c.i32();
        } else {
            o.base = (bs | bbit) as i8;
        }
    } else if rm == 5 && md == 0 {
        o.rip = true;
        o.disp = c.i32();
    } else {
        o.base = (rm | bbit) as i8;
    }
    if md == 1 {
        o.disp = c.i8() as i32;
    } else if md == 2 {
        o.disp = c.i32();
    }
    o
}

fn g(num: u8, size: u8, rexp: bool) -> Operand {
    if size == 8 && !rexp && num >= 4 && num < 8 {
        Operand::Gpr { num: num + 16, size: 8 } // ah ch dh bh
    } else {
        Operand::Gpr { num, size }
    }
}
fn rm_mem(m: &ModRm, size: u8) -> Operand {
    Operand::Mem { base: m.base, index: m.index, scale: m.scale, disp: m.disp, rip: m.rip, size }
}
fn rm_g(m: &ModRm, size: u8, x: &Ctx) -> Operand {
    if m.is_reg { g(m.rm, size, x.rexp) } else { rm_mem(m, size) }
}
fn rm_x(m: &ModRm, memsize: u8) -> Operand {
    if m.is_reg { Operand::Xmm(m.rm) } else { rm_mem(m, memsize) }
}

fn alu_mn(k: u8) -> Mn {
    match k & 7 {
        0 => Mn::Add,
        1 => Mn::Or,
        2 => Mn::Adc,
        3 => Mn::Sbb,
        4 => Mn::And,
        5 => Mn::Sub,
        6 => Mn::Xor,
        _ => Mn::Cmp,
    }
}
fn shift_mn(k: u8) -> Mn {
    match k & 7 {
        0 => Mn::Rol,
        1 => Mn::Ror,
        2 => Mn::Rcl,
        3 => Mn::Rcr,
        4 => Mn::Shl,
        5 => Mn::Shr,
        6 => Mn::Unknown,
        _ => Mn::Sar,
    }
}
fn is_legacy_prefix(b: u8) -> bool {
    b == 0x66 || b == 0xF2 || b == 0xF3 || b == 0xF0
}
fn apply_prefix(x: &mut Ctx, b: u8) {
    if b == 0x66 {
        x.p66 = true;
    } else if b == 0xF0 {
        x.lock = true;
    } else {
        x.rep = b;
    }
}

const UNKNOWN: Insn = Insn::new(Mn::Unknown, 0);

/// Decode ONE instruction at the start of `code`: the instruction and the number of bytes consumed.
pub fn decode(code: &[u8]) -> Option<(Insn, usize)> {
    let mut c = load16(code);
    let i = decode_insn(&mut c);
    if c.n > c.len || i.mn == Mn::Unknown {
        return None;
    }
    Some((i, c.n as usize))
}

/// Does opcode `op` of opcode map `map` (0 = one-byte, 1 = 0F, 3 = 0F 3A) have a ModRM byte?
/// (SDM vol. 2 appendix A, tables A-2..A-5; only the opcodes this decoder knows matter.)
fn has_modrm(map: u8, op: u8) -> bool {
    if map == 0 {
        if op < 0x40 {
            return op & 7 < 4;
        }
        return match op {
            0x63 | 0x80 | 0x81 | 0x83 | 0x84..=0x8B | 0x8D | 0xC0 | 0xC1 | 0xC6 | 0xC7 | 0xD0..=0xD3 | 0xF6 | 0xF7 | 0xFE | 0xFF => true,
            _ => false,
        };
    }
    if map == 1 {
        return match op {
            0x80..=0x8F => false, // jcc rel32
            _ => true,            // every other 0F opcode decoded below has ModRM
        };
    }
    true
}

/// immediate / displacement bytes after ModRM: 0 none, 1 one byte, 2 imm16/imm32 by operand size
/// (66 -> 2 bytes, else 4 bytes, sign-extended for 64-bit), 3 four bytes, 4 eight bytes
fn imm_kind(map: u8, op: u8, ext: u8, w: bool) -> u8 {
    if map == 0 {
        if op < 0x40 {
            return match op & 7 {
                4 => 1,
                5 => 2,
                _ => 0,
            };
        }
        return match op {
            0x70..=0x7F | 0x80 | 0x83 | 0xA8 | 0xB0..=0xB7 | 0xC0 | 0xC1 | 0xC6 | 0xEB => 1,
            0x81 | 0xA9 | 0xC7 => 2,
            0xB8..=0xBF => {
                if w { 4 } else { 2 }
            }
            0xE8 | 0xE9 => 3,
            0xF6 => {
                if ext == 0 { 1 } else { 0 }
            }
            0xF7 => {
                if ext == 0 { 2 } else { 0 }
            }
            _ => 0,
        };
    }
    if map == 1 {
        return match op {
            0x80..=0x8F => 3,
            _ => 0,
        };
    }
    1 // 0F 3A: every opcode has an imm8
}

fn decode_insn(c: &mut Cur) -> Insn {
    let mut x = Ctx { p66: false, rep: 0, lock: false, rexp: false, w: false, r: false, x: false, b: false, vex: false, l: false, v: 0, pp: 0, sse_bad: false };
    let mut b = c.u8();
    // legacy prefixes (group 1: F0 F2 F3, group 3: 66), at most four, any order
    let mut npfx = 0u8;
    if is_legacy_prefix(b) {
        apply_prefix(&mut x, b);
        npfx = 1;
        b = c.u8();
    }
    if is_legacy_prefix(b) {
        apply_prefix(&mut x, b);
        b = c.u8();
    }
    if is_legacy_prefix(b) {
        apply_prefix(&mut x, b);
        b = c.u8();
    }
    if is_legacy_prefix(b) {
        apply_prefix(&mut x, b);
        b = c.u8();
    }
    let mut map = 0u8;
    let op: u8;
    if b == 0xC5 || b == 0xC4 {
        // VEX (SDM 2.3.5). In 64-bit mode C4/C5 are always VEX; any 66/F2/F3/F0/REX before it is #UD.
        if npfx != 0 {
            return UNKNOWN;
        }
        x.vex = true;
        let p1 = c.u8();
        x.r = p1 & 0x80 == 0;
        if b == 0xC5 {
            x.v = (!(p1 >> 3)) & 15;
            x.l = p1 & 4 != 0;
            x.pp = p1 & 3;
            map = 1;
        } else {
            let p2 = c.u8();
            x.x = p1 & 0x40 == 0;
            x.b = p1 & 0x20 == 0;
            let mm = p1 & 0x1F;
            if mm < 1 || mm > 3 {
                return UNKNOWN;
            }
            map = mm;
            x.w = p2 & 0x80 != 0;
            x.v = (!(p2 >> 3)) & 15;
            x.l = p2 & 4 != 0;
            x.pp = p2 & 3;
        }
        // SIMD prefix encoding pp: 00 none, 01 = 66, 10 = F3, 11 = F2  (same numbering as Ctx::pp)
        op = c.u8();
    } else {
        if b & 0xF0 == 0x40 {
            x.rexp = true;
            x.w = b & 8 != 0;
            x.r = b & 4 != 0;
            x.x = b & 2 != 0;
            x.b = b & 1 != 0;
            b = c.u8();
        }
        if b == 0x0F {
            let b2 = c.u8();
            if b2 == 0x38 || b2 == 0x3A {
                map = if b2 == 0x38 { 2 } else { 3 };
                op = c.u8();
            } else {
                map = 1;
                op = b2;
            }
        } else {
            op = b;
        }
        x.pp = if x.rep == 0xF3 {
            2
        } else if x.rep == 0xF2 {
            3
        } else if x.p66 {
            1
        } else {
            0
        };
        x.sse_bad = x.rep != 0 && x.p66;
    }
    if map == 2 {
        return UNKNOWN; // no 0F 38 instruction is offered
    }
    // ModRM / SIB / displacement, then the immediate: read once, used by whichever instruction it is
    let m = if has_modrm(map, op) { modrm(c, &x) } else { NO_MODRM };
    let osz: u8 = if x.w { 64 } else if x.p66 { 16 } else { 32 };
    let imm: i64 = match imm_kind(map, op, m.reg & 7, x.w) {
        1 => c.i8(),
        2 => c.imm_z(osz),
        3 => c.i32() as i64,
        4 => c.i64(),
        _ => 0,
    };
    // SSE / AVX opcodes of the 0F map: the SIMD prefix selects the instruction
    let is_sse = map == 1
        && match op {
            0x10 | 0x11 | 0x28 | 0x29 | 0x2A | 0x2C | 0x2D | 0x2E | 0x2F | 0x51 | 0x54..=0x5A | 0x5C..=0x5F | 0x6E | 0x7E | 0xD6 | 0xEF => true,
            _ => false,
        };
    let mut i = if map == 3 {
        decode_map3(&x, op, &m, imm)
    } else if is_sse {
        sse_build(&x, sse_table(&x, op, m.is_reg), &m, Operand::None)
    } else {
        // integer instructions (no VEX form)
        let f = if map == 0 { form_map0(&x, op, m.reg & 7, m.is_reg) } else { form_map1(&x, op, &m) };
        int_build(&x, f, op, &m, imm)
    };
    if i.mn == Mn::Unknown {
        return UNKNOWN;
    }
    i.vex = x.vex;
    if x.lock {
        // LOCK is only defined for these read-modify-write instructions with a memory destination
        let lockable = match i.mn {
            Mn::Add | Mn::Or | Mn::Adc | Mn::Sbb | Mn::And | Mn::Sub | Mn::Xor | Mn::Xchg | Mn::Cmpxchg | Mn::Xadd | Mn::Inc | Mn::Dec | Mn::Neg | Mn::Not => true,
            _ => false,
        };
        let memdest = match i.ops[0] {
            Operand::Mem { .. } => true,
            _ => false,
        };
        if !(lockable && memdest) {
            return UNKNOWN;
        }
        i.lock = true;
    }
    i
}

const NO_MODRM: ModRm = ModRm { md: 0, reg: 0, is_reg: false, rm: 0, base: -1, index: -1, scale: 1, disp: 0, rip: false };

// Integer instructions are decoded in two steps so that the (large) Insn value is built exactly once:
// the opcode selects a small `Form` (mnemonic, sizes, operand kinds), `int_build` turns it into operands.

// operand kinds of a Form
const K_NONE: u8 = 0;
const K_RM: u8 = 1; // ModRM.rm: general register or memory of the given size
const K_REG: u8 = 2; // ModRM.reg: general register of the given size
const K_ACC: u8 = 3; // al / ax / eax / rax
const K_OPREG: u8 = 4; // register in the low 3 opcode bits (+ REX.B)
const K_IMM: u8 = 5; // the immediate, sign-extended
const K_IMMU8: u8 = 6; // the immediate byte, zero-extended (shift count)
const K_ONE: u8 = 7; // constant 1 (D0/D1 shifts)
const K_CL: u8 = 8; // %cl
const K_REL: u8 = 9; // branch displacement
const K_MEM: u8 = 10; // ModRM.rm memory only, given access size (lea: 0)

#[derive(Copy, Clone)]
struct Form {
    mn: Mn,
    osz: u8, // Insn::opsize
    ka: u8,
    sa: u8,
    kb: u8,
    sb: u8,
    cc: u8,
    no66: bool,     // the 66 prefix is not defined for this form
    rep_used: bool, // F3 is part of the opcode
}
const F_UNKNOWN: Form = Form { mn: Mn::Unknown, osz: 0, ka: 0, sa: 0, kb: 0, sb: 0, cc: 0, no66: false, rep_used: false };
const fn f0(mn: Mn, osz: u8) -> Form {
    Form { mn, osz, ka: K_NONE, sa: 0, kb: K_NONE, sb: 0, cc: 0, no66: false, rep_used: false }
}
const fn f1(mn: Mn, osz: u8, ka: u8, sa: u8) -> Form {
    Form { mn, osz, ka, sa, kb: K_NONE, sb: 0, cc: 0, no66: false, rep_used: false }
}
const fn f2(mn: Mn, osz: u8, ka: u8, sa: u8, kb: u8, sb: u8) -> Form {
    Form { mn, osz, ka, sa, kb, sb, cc: 0, no66: false, rep_used: false }
}
impl Form {
    const fn cc(mut self, cc: u8) -> Form {
        self.cc = cc;
        self
    }
    const fn no66(mut self) -> Form {
        self.no66 = true;
        self
    }
    /// byte-sized forms do not define the 66 prefix
    const fn no66_if_byte(mut self) -> Form {
        self.no66 = self.osz == 8;
        self
    }
}

fn int_operand(k: u8, s: u8, x: &Ctx, op: u8, m: &ModRm, imm: i64) -> Operand {
    match k {
        K_RM => rm_g(m, s, x),
        K_REG => g(m.reg, s, x.rexp),
        K_ACC => gpr(0, s),
        K_OPREG => g((op & 7) | ((x.b as u8) << 3), s, x.rexp),
        K_IMM => Operand::Imm(imm),
        K_IMMU8 => Operand::Imm(imm as u8 as i64),
        K_ONE => Operand::Imm(1),
        K_CL => CL,
        K_REL => Operand::Rel(imm as i32),
        K_MEM => rm_mem(m, s),
        _ => Operand::None,
    }
}

fn int_build(x: &Ctx, f: Form, op: u8, m: &ModRm, imm: i64) -> Insn {
    if f.mn == Mn::Unknown || (f.no66 && x.p66) || x.vex {
        return UNKNOWN;
    }
    let a = int_operand(f.ka, f.sa, x, op, m, imm);
    let b = int_operand(f.kb, f.sb, x, op, m, imm);
    let nops = if f.ka == K_NONE { 0 } else if f.kb == K_NONE { 1 } else { 2 };
    Insn {
        mn: f.mn,
        opsize: f.osz as u16,
        ops: [a, b, Operand::None, Operand::None],
        nops,
        lock: false,
        // an F2/F3 prefix that is not part of the opcode stays visible
        rep: if f.rep_used { 0 } else { x.rep },
        cc: f.cc,
        vex: false,
    }
}

/// one-byte opcode map (`ext` = ModRM.reg & 7 for group opcodes, `rm_is_reg` = ModRM.mod == 3)
fn form_map0(x: &Ctx, op: u8, ext: u8, rm_is_reg: bool) -> Form {
    let osz: u8 = if x.w { 64 } else if x.p66 { 16 } else { 32 };
    // size of the byte / full-size opcode pairs (even opcode = byte form)
    let sz: u8 = if op & 1 == 0 { 8 } else { osz };
    if op < 0x40 {
        let mn = alu_mn(op >> 3);
        return match op & 7 {
            0 | 1 => f2(mn, sz, K_RM, sz, K_REG, sz).no66_if_byte(),
            2 | 3 => f2(mn, sz, K_REG, sz, K_RM, sz).no66_if_byte(),
            4 | 5 => f2(mn, sz, K_ACC, sz, K_IMM, 0).no66_if_byte(),
            _ => F_UNKNOWN,
        };
    }
    match op {
        0x50..=0x5F => {
            // default operand size 64 in 64-bit mode; 66 selects 16 unless REX.W is set
            let psz = if x.p66 && !x.w { 16 } else { 64 };
            f1(if op < 0x58 { Mn::Push } else { Mn::Pop }, psz, K_OPREG, psz)
        }
        0x63 => f2(Mn::Movsxd, osz, K_REG, osz, K_RM, 32),
        0x70..=0x7F => f1(Mn::Jcc, 0, K_REL, 0).cc(op & 15).no66(),
        // 80: r/m8, imm8; 81: r/m, imm16/32; 83: r/m, imm8 sign-extended
        0x80 => f2(alu_mn(ext), 8, K_RM, 8, K_IMM, 0).no66(),
        0x81 | 0x83 => f2(alu_mn(ext), osz, K_RM, osz, K_IMM, 0),
        0x84..=0x89 => {
            let mn = if op < 0x86 { Mn::Test } else if op < 0x88 { Mn::Xchg } else { Mn::Mov };
            f2(mn, sz, K_RM, sz, K_REG, sz).no66_if_byte()
        }
        0x8A | 0x8B => f2(Mn::Mov, sz, K_REG, sz, K_RM, sz).no66_if_byte(),
        0x8D => {
            if rm_is_reg { F_UNKNOWN } else { f2(Mn::Lea, osz, K_REG, osz, K_MEM, 0) }
        }
        // 90 is NOP only when REX.B = 0 (41 90 is xchg r8, rax); F3 90 is PAUSE (kept visible in rep)
        0x90 => {
            if x.b { F_UNKNOWN } else { f0(Mn::Nop, 0).no66() }
        }
        0x98 => f0(Mn::Cbw, osz),
        0x99 => f0(Mn::Cwd, osz),
        0xA8 | 0xA9 => f2(Mn::Test, sz, K_ACC, sz, K_IMM, 0).no66_if_byte(),
        0xB0..=0xB7 => f2(Mn::Mov, 8, K_OPREG, 8, K_IMM, 0).no66(),
        0xB8..=0xBF => f2(Mn::Mov, osz, K_OPREG, osz, K_IMM, 0),
        0xC0 | 0xC1 => f2(shift_mn(ext), sz, K_RM, sz, K_IMMU8, 0).no66_if_byte(),
        0xD0 | 0xD1 => f2(shift_mn(ext), sz, K_RM, sz, K_ONE, 0).no66_if_byte(),
        0xD2 | 0xD3 => f2(shift_mn(ext), sz, K_RM, sz, K_CL, 0).no66_if_byte(),
        0xC3 => f0(Mn::Ret, 0).no66(),
        0xCC => f0(Mn::Int3, 0).no66(),
        0xC6 | 0xC7 => {
            if ext != 0 { F_UNKNOWN } else { f2(Mn::Mov, sz, K_RM, sz, K_IMM, 0).no66_if_byte() }
        }
        0xE8 => f1(Mn::Call, 0, K_REL, 0).no66(),
        0xE9 | 0xEB => f1(Mn::Jmp, 0, K_REL, 0).no66(),
        0xF6 | 0xF7 => match ext {
            0 => f2(Mn::Test, sz, K_RM, sz, K_IMM, 0).no66_if_byte(),
            2 => f1(Mn::Not, sz, K_RM, sz).no66_if_byte(),
            3 => f1(Mn::Neg, sz, K_RM, sz).no66_if_byte(),
            4 => f1(Mn::Mul, sz, K_RM, sz).no66_if_byte(),
            5 => f1(Mn::Imul, sz, K_RM, sz).no66_if_byte(),
            6 => f1(Mn::Div, sz, K_RM, sz).no66_if_byte(),
            7 => f1(Mn::Idiv, sz, K_RM, sz).no66_if_byte(),
            _ => F_UNKNOWN,
        },
        0xFE | 0xFF => match ext {
            0 => f1(Mn::Inc, sz, K_RM, sz).no66_if_byte(),
            1 => f1(Mn::Dec, sz, K_RM, sz).no66_if_byte(),
            // FF /2 /4 /6: near indirect call / jmp / push: operand size is 64 in 64-bit mode, REX.W not needed
            2 | 4 | 6 => {
                if op == 0xFE {
                    F_UNKNOWN
                } else {
                    f1(if ext == 2 { Mn::Call } else if ext == 4 { Mn::Jmp } else { Mn::Push }, 64, K_RM, 64).no66()
                }
            }
            _ => F_UNKNOWN,
        },
        _ => F_UNKNOWN,
    }
}

/// integer opcodes of the 0F map
fn form_map1(x: &Ctx, op: u8, m: &ModRm) -> Form {
    let osz: u8 = if x.w { 64 } else if x.p66 { 16 } else { 32 };
    let f3 = x.rep == 0xF3;
    match op {
        0x40..=0x4F => f2(Mn::Cmovcc, osz, K_REG, osz, K_RM, osz).cc(op & 15),
        0x80..=0x8F => f1(Mn::Jcc, 0, K_REL, 0).cc(op & 15).no66(),
        0x90..=0x9F => f1(Mn::Setcc, 8, K_RM, 8).cc(op & 15).no66(),
        0xAE => {
            // register forms of group 15: /5 lfence, /6 mfence, /7 sfence (SDM: 0F AE E8 / F0 / F8)
            if !m.is_reg || (m.rm & 7) != 0 || x.rep != 0 {
                F_UNKNOWN
            } else {
                match m.reg & 7 {
                    5 => f0(Mn::Lfence, 0).no66(),
                    6 => f0(Mn::Mfence, 0).no66(),
                    7 => f0(Mn::Sfence, 0).no66(),
                    _ => F_UNKNOWN,
                }
            }
        }
        0xAF => f2(Mn::Imul, osz, K_REG, osz, K_RM, osz),
        0xB0 | 0xC0 => f2(if op == 0xB0 { Mn::Cmpxchg } else { Mn::Xadd }, 8, K_RM, 8, K_REG, 8).no66(),
        0xB1 | 0xC1 => f2(if op == 0xB1 { Mn::Cmpxchg } else { Mn::Xadd }, osz, K_RM, osz, K_REG, osz),
        0xB6 | 0xB7 | 0xBE | 0xBF => f2(if op < 0xB8 { Mn::Movzx } else { Mn::Movsx }, osz, K_REG, osz, K_RM, if op & 1 == 0 { 8 } else { 16 }),
        0xB8 => {
            // F3 0F B8 popcnt (without F3: jmpe, not an x86-64 instruction)
            if f3 {
                let mut f = f2(Mn::Popcnt, osz, K_REG, osz, K_RM, osz);
                f.rep_used = true;
                f
            } else {
                F_UNKNOWN
            }
        }
        0xBC | 0xBD => {
            let mn = match (op, f3) {
                (0xBC, true) => Mn::Tzcnt,
                (0xBC, false) => Mn::Bsf,
                (_, true) => Mn::Lzcnt,
                _ => Mn::Bsr,
            };
            let mut f = f2(mn, osz, K_REG, osz, K_RM, osz);
            f.rep_used = f3;
            f
        }
        _ => F_UNKNOWN,
    }
}

/// (opcode 51 / 58..5F except 5A 5B, SIMD prefix) -> mnemonic
fn sse_arith_mn(op: u8, pp: u8) -> Mn {
    match (op, pp) {
        (0x51, 0) => Mn::Sqrtps,
        (0x51, 1) => Mn::Sqrtpd,
        (0x51, 2) => Mn::Sqrtss,
        (0x51, _) => Mn::Sqrtsd,
        (0x58, 0) => Mn::Addps,
        (0x58, 1) => Mn::Addpd,
        (0x58, 2) => Mn::Addss,
        (0x58, _) => Mn::Addsd,
        (0x59, 0) => Mn::Mulps,
        (0x59, 1) => Mn::Mulpd,
        (0x59, 2) => Mn::Mulss,
        (0x59, _) => Mn::Mulsd,
        (0x5C, 0) => Mn::Subps,
        (0x5C, 1) => Mn::Subpd,
        (0x5C, 2) => Mn::Subss,
        (0x5C, _) => Mn::Subsd,
        (0x5D, 0) => Mn::Minps,
        (0x5D, 1) => Mn::Minpd,
        (0x5D, 2) => Mn::Minss,
        (0x5D, _) => Mn::Minsd,
        (0x5E, 0) => Mn::Divps,
        (0x5E, 1) => Mn::Divpd,
        (0x5E, 2) => Mn::Divss,
        (0x5E, _) => Mn::Divsd,
        (0x5F, 0) => Mn::Maxps,
        (0x5F, 1) => Mn::Maxpd,
        (0x5F, 2) => Mn::Maxss,
        (0x5F, _) => Mn::Maxsd,
        _ => Mn::Unknown,
    }
}

/// Shape of an SSE/AVX instruction: which fields are the operands.
/// 0 = unknown; otherwise  dst <- src  with
///   1: xmm(reg) <- xmm/m(rm)            two operands (VEX: vvvv must be unused)
///   2: xmm/m(rm) <- xmm(reg)            two operands
///   3: xmm(reg) <- [vvvv,] xmm/m(rm)    legacy two / VEX three operands
///   4: xmm(rm)  <- [vvvv,] xmm(reg)     VEX three operands (register form of the 11 store opcode)
///   5: xmm(reg) <- [vvvv,] gpr/m(rm)    cvtsi2ss/sd
///   6: gpr(reg) <- xmm/m(rm)            cvt(t)ss2si / cvt(t)sd2si
///   7: xmm(reg) <- gpr/m(rm)            movd/movq
///   8: gpr/m(rm) <- xmm(reg)            movd/movq
#[derive(Copy, Clone)]
struct Sse {
    mn: Mn,
    shape: u8,
    msize: u8, // size of a memory (rm) operand
}
const SSE_UNKNOWN: Sse = Sse { mn: Mn::Unknown, shape: 0, msize: 0 };

fn sse_table(x: &Ctx, op: u8, rm_is_reg: bool) -> Sse {
    let pp = x.pp;
    // memory operand size selected by the SIMD prefix: packed 128, ss 32, sd 64
    let ms_pp: u8 = match pp {
        2 => 32,
        3 => 64,
        _ => 128,
    };
    let gsz: u8 = if x.w { 64 } else { 32 };
    let l0 = !(x.vex && x.l); // instruction requires VEX.L = 0
    match op {
        0x10 | 0x11 => {
            let mn = match pp {
                0 => Mn::Movups,
                1 => Mn::Movupd,
                2 => Mn::Movss,
                _ => Mn::Movsd,
            };
            // VMOVSS/VMOVSD xmm1, xmm2, xmm3 (register form) is a three-operand merge
            let merge = x.vex && pp >= 2 && rm_is_reg;
            let shape = if op == 0x10 {
                if merge { 3 } else { 1 }
            } else if merge {
                4
            } else {
                2
            };
            Sse { mn, shape, msize: ms_pp }
        }
        0x28 | 0x29 => {
            let mn = match pp {
                0 => Mn::Movaps,
                1 => Mn::Movapd,
                _ => Mn::Unknown,
            };
            Sse { mn, shape: if op == 0x28 { 1 } else { 2 }, msize: 128 }
        }
        0x2A => {
            let mn = match pp {
                2 => Mn::Cvtsi2ss,
                3 => Mn::Cvtsi2sd,
                _ => Mn::Unknown, // cvtpi2ps/pd (MMX) not offered
            };
            Sse { mn, shape: 5, msize: gsz }
        }
        0x2C | 0x2D => {
            let mn = match (op, pp) {
                (0x2C, 2) => Mn::Cvttss2si,
                (0x2C, 3) => Mn::Cvttsd2si,
                (0x2D, 2) => Mn::Cvtss2si,
                (0x2D, 3) => Mn::Cvtsd2si,
                _ => Mn::Unknown,
            };
            Sse { mn, shape: 6, msize: ms_pp }
        }
        0x2E | 0x2F => {
            let mn = match (op, pp) {
                (0x2E, 0) => Mn::Ucomiss,
                (0x2E, 1) => Mn::Ucomisd,
                (0x2F, 0) => Mn::Comiss,
                (0x2F, 1) => Mn::Comisd,
                _ => Mn::Unknown,
            };
            Sse { mn, shape: 1, msize: if pp == 0 { 32 } else { 64 } }
        }
        0x51 | 0x58 | 0x59 | 0x5C..=0x5F => Sse { mn: sse_arith_mn(op, pp), shape: if op == 0x51 && pp < 2 { 1 } else { 3 }, msize: ms_pp },
        0x54..=0x57 => {
            let mn = match (op, pp) {
                (0x54, 0) => Mn::Andps,
                (0x54, 1) => Mn::Andpd,
                (0x55, 0) => Mn::Andnps,
                (0x55, 1) => Mn::Andnpd,
                (0x56, 0) => Mn::Orps,
                (0x56, 1) => Mn::Orpd,
                (0x57, 0) => Mn::Xorps,
                (0x57, 1) => Mn::Xorpd,
                _ => Mn::Unknown,
            };
            Sse { mn, shape: 3, msize: 128 }
        }
        0x5A => {
            let mn = match pp {
                2 => Mn::Cvtss2sd,
                3 => Mn::Cvtsd2ss,
                _ => Mn::Unknown, // cvtps2pd / cvtpd2ps not offered
            };
            Sse { mn, shape: 3, msize: ms_pp }
        }
        0x6E => {
            if pp == 1 && l0 { Sse { mn: if x.w { Mn::Movq } else { Mn::Movd }, shape: 7, msize: gsz } } else { SSE_UNKNOWN }
        }
        0x7E => {
            if pp == 1 && l0 {
                Sse { mn: if x.w { Mn::Movq } else { Mn::Movd }, shape: 8, msize: gsz }
            } else if pp == 2 && l0 {
                Sse { mn: Mn::Movq, shape: 1, msize: 64 } // F3 0F 7E: movq xmm, xmm/m64
            } else {
                SSE_UNKNOWN
            }
        }
        0xD6 => {
            if pp == 1 && l0 { Sse { mn: Mn::Movq, shape: 2, msize: 64 } } else { SSE_UNKNOWN }
        }
        0xEF => {
            if pp == 1 { Sse { mn: Mn::Pxor, shape: 3, msize: 128 } } else { SSE_UNKNOWN }
        }
        _ => SSE_UNKNOWN,
    }
}

fn sse_opsize(x: &Ctx) -> u16 {
    if x.vex && x.l { 256 } else { 128 }
}

/// build the Insn of an SSE/AVX instruction from its table entry
fn sse_build(x: &Ctx, t: Sse, m: &ModRm, trailing_imm: Operand) -> Insn {
    if t.mn == Mn::Unknown || t.shape == 0 || x.sse_bad {
        return UNKNOWN;
    }
    let osz = sse_opsize(x);
    let xr = Operand::Xmm(m.reg);
    let xrm = rm_x(m, t.msize);
    let grm = rm_g(m, t.msize, x);
    let gr = gpr(m.reg, if x.w { 64 } else { 32 });
    let (dst, src, three) = match t.shape {
        1 => (xr, xrm, false),
        2 => (xrm, xr, false),
        3 => (xr, xrm, true),
        4 => (xrm, xr, true),
        5 => (xr, grm, true),
        6 => (gr, xrm, false),
        7 => (xr, grm, false),
        _ => (grm, xr, false),
    };
    let has_imm = match trailing_imm {
        Operand::None => false,
        _ => true,
    };
    if x.vex && three {
        // non-destructive VEX form: dst, vvvv, src
        let v = Operand::Xmm(x.v);
        if has_imm { Insn::op4(t.mn, osz, dst, v, src, trailing_imm) } else { Insn::op3(t.mn, osz, dst, v, src) }
    } else {
        if x.vex && x.v != 0 {
            return UNKNOWN; // VEX.vvvv must be 1111b when it encodes no operand
        }
        if has_imm { Insn::op3(t.mn, osz, dst, src, trailing_imm) } else { Insn::op2(t.mn, osz, dst, src) }
    }
}

/// 0F 3A opcode map: roundss / roundsd (66 0F 3A 0A/0B /r ib)
fn decode_map3(x: &Ctx, op: u8, m: &ModRm, imm: i64) -> Insn {
    if x.pp != 1 {
        return UNKNOWN;
    }
    let t = match op {
        0x0A => Sse { mn: Mn::Roundss, shape: 3, msize: 32 },
        0x0B => Sse { mn: Mn::Roundsd, shape: 3, msize: 64 },
        _ => SSE_UNKNOWN,
    };
    sse_build(x, t, m, Operand::Imm(imm as u8 as i64))
}

// ------------------------------------------------------------------------------------------------
// AT&T rendering in the style of `llvm-mc --disassemble` (oracle self-test only)

#[cfg(not(kani))]
pub fn cc_name(cc: u8) -> &'static str {
    ["o", "no", "b", "ae", "e", "ne", "be", "a", "s", "ns", "p", "np", "l", "ge", "le", "g"][(cc & 15) as usize]
}

#[cfg(not(kani))]
pub fn reg_name(num: u8, size: u8) -> String {
    const N64: [&str; 8] = ["ax", "cx", "dx", "bx", "sp", "bp", "si", "di"];
    if size == 8 {
        if num >= 20 && num < 24 {
            return ["%ah", "%ch", "%dh", "%bh"][(num - 20) as usize].to_string();
        }
        if num < 4 {
            return format!("%{}l", &N64[num as usize][..1]);
        }
        if num < 8 {
            return format!("%{}l", N64[num as usize]);
        }
        return format!("%r{}b", num);
    }
    if num < 8 {
        let n = N64[num as usize];
        return match size {
            16 => format!("%{}", n),
            32 => format!("%e{}", n),
            _ => format!("%r{}", n),
        };
    }
    match size {
        16 => format!("%r{}w", num),
        32 => format!("%r{}d", num),
        _ => format!("%r{}", num),
    }
}

#[cfg(not(kani))]
pub fn render_operand(o: &Operand, branch_target: bool) -> String {
    render_operand_v(o, branch_target, false)
}
#[cfg(not(kani))]
pub fn render_operand_v(o: &Operand, branch_target: bool, ymm: bool) -> String {
    match *o {
        Operand::None => String::new(),
        Operand::Gpr { num, size } => {
            if branch_target { format!("*{}", reg_name(num, size)) } else { reg_name(num, size) }
        }
        Operand::Xmm(n) => format!("%{}mm{}", if ymm { "y" } else { "x" }, n),
        Operand::Imm(v) => format!("${}", v),
        Operand::Rel(d) => format!("{}", d),
        Operand::Unencodable => "<unencodable>".to_string(),
        Operand::Mem { base, index, scale, disp, rip, .. } => {
            let mut s = String::new();
            if branch_target {
                s.push('*');
            }
            if rip {
                if disp != 0 {
                    s += &format!("{}", disp);
                }
                s += "(%rip)";
                return s;
            }
            if disp != 0 || (base < 0 && index < 0) {
                s += &format!("{}", disp);
            }
            if base >= 0 || index >= 0 {
                s.push('(');
                if base >= 0 {
                    s += &reg_name(base as u8, 64);
                }
                if index >= 0 {
                    s += &format!(",{},{}", reg_name(index as u8, 64), scale);
                }
                s.push(')');
            }
            s
        }
    }
}

/// AT&T text of the instruction, e.g. "addq %rbx, %rax", "lock cmpxchgq %rdi, (%rax)".
#[cfg(not(kani))]
pub fn render(i: &Insn) -> String {
    let sfx = |sz: u16| match sz {
        8 => "b",
        16 => "w",
        32 => "l",
        64 => "q",
        _ => "",
    };
    let osfx = sfx(i.opsize);
    let srcsize = |o: &Operand| -> u16 {
        match *o {
            Operand::Gpr { size, .. } => size as u16,
            Operand::Mem { size, .. } => size as u16,
            _ => 0,
        }
    };
    let base = format!("{:?}", i.mn).to_lowercase();
    let mut branch = false;
    let name: String = match i.mn {
        Mn::Add | Mn::Or | Mn::Adc | Mn::Sbb | Mn::And | Mn::Sub | Mn::Xor | Mn::Cmp | Mn::Mov | Mn::Lea | Mn::Test | Mn::Xchg | Mn::Cmpxchg | Mn::Xadd | Mn::Imul | Mn::Mul | Mn::Idiv | Mn::Div | Mn::Neg | Mn::Not | Mn::Inc | Mn::Dec | Mn::Rol | Mn::Ror | Mn::Rcl | Mn::Rcr | Mn::Shl | Mn::Shr | Mn::Sar | Mn::Push | Mn::Pop | Mn::Popcnt | Mn::Lzcnt | Mn::Tzcnt | Mn::Bsr | Mn::Bsf => {
            if i.mn == Mn::Mov && i.opsize == 64 {
                if let (Operand::Gpr { .. }, Operand::Imm(v)) = (i.ops[0], i.ops[1]) {
                    if v < -2147483648 || v > 2147483647 {
                        let p = if i.rep == 0xF3 { "rep " } else if i.rep == 0xF2 { "repne " } else { "" };
                        return format!("{}movabsq ${}, {}", p, v, render_operand(&i.ops[0], false));
                    }
                }
            }
            format!("{}{}", base, osfx)
        }
        Mn::Movzx => format!("movz{}{}", sfx(srcsize(&i.ops[1])), osfx),
        Mn::Movsx | Mn::Movsxd => format!("movs{}{}", sfx(srcsize(&i.ops[1])), osfx),
        Mn::Setcc => format!("set{}", cc_name(i.cc)),
        Mn::Cmovcc => format!("cmov{}{}", cc_name(i.cc), osfx),
        Mn::Jcc => format!("j{}", cc_name(i.cc)),
        Mn::Jmp | Mn::Call => {
            if let Operand::Rel(_) = i.ops[0] {
                if i.mn == Mn::Jmp { "jmp".to_string() } else { "callq".to_string() }
            } else {
                branch = true;
                format!("{}q", base)
            }
        }
        Mn::Ret => "retq".to_string(),
        Mn::Cbw => match i.opsize {
            16 => "cbtw",
            32 => "cwtl",
            _ => "cltq",
        }
        .to_string(),
        Mn::Cwd => match i.opsize {
            16 => "cwtd",
            32 => "cltd",
            _ => "cqto",
        }
        .to_string(),
        _ => {
            // llvm adds an l/q suffix to cvtsi2ss/sd only when the integer source is in memory
            let sx = match (i.mn, i.ops[(i.nops as usize).saturating_sub(1).min(3)]) {
                (Mn::Cvtsi2ss, Operand::Mem { size, .. }) | (Mn::Cvtsi2sd, Operand::Mem { size, .. }) => sfx(size as u16),
                _ => "",
            };
            if i.vex { format!("v{}{}", base, sx) } else { format!("{}{}", base, sx) }
        }
    };
    // VEX.L = 1 on a packed instruction: ymm registers
    let ymm = i.vex && i.opsize == 256 && base.len() > 2 && (base.ends_with("ps") || base.ends_with("pd") || i.mn == Mn::Pxor);
    let mut s = String::new();
    if i.lock {
        s += "lock ";
    }
    if i.rep == 0xF3 {
        s += "rep ";
    }
    if i.rep == 0xF2 {
        s += "repne ";
    }
    s += &name;
    let n = i.nops as usize;
    let mut k = n;
    let mut first = true;
    while k > 0 {
        k -= 1;
        s += if first { " " } else { ", " };
        first = false;
        s += &render_operand_v(&i.ops[k], branch, ymm);
    }
    s
}
