//! x64dec — reference decoder for the x86-64 instructions the dora assembler offers.
//! Written from the Intel SDM vol. 2 (ch. 2 instruction format, ch. 3-5 instruction pages,
//! appendix A opcode maps), NOT from dora-asm/src/x64.rs. Loop-free, total on byte slices
//! (every read is bounds-checked), no allocation.
//!
//! Normal form (encodings that mean the same instruction decode to the same `Insn`):
//!  * operands are in Intel order: ops[0] = destination / first operand;
//!  * `op r/m, r` and `op r, r/m` with a register r/m give the same Insn;
//!  * disp8 and disp32 of the same value give the same Mem; a SIB byte without index gives
//!    index = -1, scale = 1; mod=00 base=101 gives base = -1;
//!  * immediates are stored sign-extended from the operand size to i64 (an imm8 of a
//!    sign-extending form is first extended to the operand size); shift counts and the
//!    rounding-mode byte are stored zero-extended;
//!  * 8-bit registers: num 0..15 = al cl dl bl spl bpl sil dil r8b..r15b, num 20..23 = ah ch dh bh
//!    (what reg field 4..7 means when no REX prefix is present);
//!  * REX.W on byte-sized / fixed-size / SSE (WIG) instructions, and unused REX.R/X/B, are ignored
//!    as the processor ignores them; a 66 prefix where it is not defined decodes to None.
#![allow(dead_code)]

#[derive(Copy, Clone, PartialEq, Eq, Debug)]
pub enum Mn {
    Unknown,
    Add, Or, Adc, Sbb, And, Sub, Xor, Cmp,
    Mov, Movzx, Movsx, Movsxd, Lea, Test, Xchg, Cmpxchg, Xadd,
    Imul, Mul, Idiv, Div, Neg, Not, Inc, Dec,
    Rol, Ror, Rcl, Rcr, Shl, Shr, Sar,
    Setcc, Cmovcc, Jcc, Jmp, Call, Push, Pop, Ret, Int3, Nop,
    Cbw, // 98: cbw / cwde / cdqe by opsize
    Cwd, // 99: cwd / cdq / cqo by opsize
    Popcnt, Lzcnt, Tzcnt, Bsr, Bsf,
    Mfence, Lfence, Sfence,
    // SSE / AVX (vex = true for the VEX-encoded form)
    Movups, Movupd, Movss, Movsd, Movaps, Movapd, Movd, Movq,
    Cvtsi2ss, Cvtsi2sd, Cvttss2si, Cvttsd2si, Cvtss2si, Cvtsd2si, Cvtss2sd, Cvtsd2ss,
    Ucomiss, Ucomisd, Comiss, Comisd,
    Sqrtps, Sqrtpd, Sqrtss, Sqrtsd,
    Andps, Andpd, Andnps, Andnpd, Orps, Orpd, Xorps, Xorpd,
    Addps, Addpd, Addss, Addsd,
    Mulps, Mulpd, Mulss, Mulsd,
    Subps, Subpd, Subss, Subsd,
    Minps, Minpd, Minss, Minsd,
    Divps, Divpd, Divss, Divsd,
    Maxps, Maxpd, Maxss, Maxsd,
    Pxor, Roundss, Roundsd,
}

#[derive(Copy, Clone, PartialEq, Eq, Debug)]
pub enum Operand {
    None,
    Gpr { num: u8, size: u8 },
    Xmm(u8),
    /// base / index: register number or -1; scale 1/2/4/8 (1 when no index); rip: RIP-relative
    Mem { base: i8, index: i8, scale: u8, disp: i32, rip: bool, size: u8 },
    Imm(i64),
    Rel(i32),
    /// never produced by the decoder: a requested immediate that the operand size cannot represent
    Unencodable,
}

#[derive(Copy, Clone, PartialEq, Eq, Debug)]
pub struct Insn {
    pub mn: Mn,
    /// integer: operand size 8/16/32/64 (destination size for movzx/movsx/movsxd/lea; 64 for
    /// push/pop/indirect call/jmp; 0 for rel branches, ret, int3, nop, fences).
    /// SSE: 128; VEX: 128 (VEX.L=0) or 256 (VEX.L=1).
    pub opsize: u16,
    pub ops: [Operand; 4],
    pub nops: u8,
    pub lock: bool,
    /// an F2/F3 prefix that is not part of the opcode (0 otherwise)
    pub rep: u8,
    /// condition code of jcc / setcc / cmovcc (0 otherwise)
    pub cc: u8,
    pub vex: bool,
}

pub const CL: Operand = Operand::Gpr { num: 1, size: 8 };

impl Insn {
    pub const fn new(mn: Mn, opsize: u16) -> Insn {
        Insn { mn, opsize, ops: [Operand::None; 4], nops: 0, lock: false, rep: 0, cc: 0, vex: false }
    }
    pub const fn op0(mn: Mn, opsize: u16) -> Insn {
        Insn::new(mn, opsize)
    }
    pub const fn op1(mn: Mn, opsize: u16, a: Operand) -> Insn {
        let mut i = Insn::new(mn, opsize);
        i.ops[0] = a;
        i.nops = 1;
        i
    }
    pub const fn op2(mn: Mn, opsize: u16, a: Operand, b: Operand) -> Insn {
        let mut i = Insn::new(mn, opsize);
        i.ops[0] = a;
        i.ops[1] = b;
        i.nops = 2;
        i
    }
    pub const fn op3(mn: Mn, opsize: u16, a: Operand, b: Operand, c: Operand) -> Insn {
        let mut i = Insn::new(mn, opsize);
        i.ops[0] = a;
        i.ops[1] = b;
        i.ops[2] = c;
        i.nops = 3;
        i
    }
    pub const fn op4(mn: Mn, opsize: u16, a: Operand, b: Operand, c: Operand, d: Operand) -> Insn {
        let mut i = Insn::new(mn, opsize);
        i.ops[0] = a;
        i.ops[1] = b;
        i.ops[2] = c;
        i.ops[3] = d;
        i.nops = 4;
        i
    }
    pub const fn with_cc(mut self, cc: u8) -> Insn {
        self.cc = cc;
        self
    }
    pub const fn with_lock(mut self) -> Insn {
        self.lock = true;
        self
    }
    pub const fn with_vex(mut self) -> Insn {
        self.vex = true;
        self
    }
}

/// general register `num` (0..15) seen with operand size `size`
pub const fn gpr(num: u8, size: u8) -> Operand {
    Operand::Gpr { num, size }
}
pub const fn mem(base: i8, index: i8, scale: u8, disp: i32, size: u8) -> Operand {
    Operand::Mem { base, index, scale: if index < 0 { 1 } else { scale }, disp, rip: false, size }
}
pub const fn mem_rip(disp: i32, size: u8) -> Operand {
    Operand::Mem { base: -1, index: -1, scale: 1, disp, rip: true, size }
}
/// the same memory operand with another access size
pub fn mem_sized(m: Operand, size: u8) -> Operand {
    match m {
        Operand::Mem { base, index, scale, disp, rip, size: _ } => Operand::Mem { base, index, scale, disp, rip, size },
        o => o,
    }
}
/// How a caller's i64 immediate is represented for an operand of `size` bits: the value must be
/// representable in `size` bits (as a signed or as an unsigned quantity — both readings denote the
/// same `size`-bit operand); the normal form is the sign-extension of those `size` bits.
pub fn imm_for(v: i64, size: u8) -> Operand {
    match size {
        8 => {
            if v >= -128 && v <= 255 { Operand::Imm(v as u8 as i8 as i64) } else { Operand::Unencodable }
        }
        16 => {
            if v >= -32768 && v <= 65535 { Operand::Imm(v as u16 as i16 as i64) } else { Operand::Unencodable }
        }
        32 => {
            if v >= -2147483648 && v <= 4294967295 { Operand::Imm(v as u32 as i32 as i64) } else { Operand::Unencodable }
        }
        _ => Operand::Imm(v),
    }
}
/// a shift count / rounding mode byte: zero-extended imm8
pub fn imm_u8_for(v: i64) -> Operand {
    if v >= 0 && v <= 255 { Operand::Imm(v) } else { Operand::Unencodable }
}

// ------------------------------------------------------------------------------------------------

/// Cursor over the first 16 bytes of the code (an x86 instruction is at most 15 bytes long), held in
/// a shift register: reading a byte is `w as u8; w >>= 8` — no indexing with a computed position,
/// which keeps the decoder cheap for the bit-level verifier. Bytes beyond the slice read as 0 and
/// make the decode fail at the end (`n > len`).
struct Cur {
    w: u128,
    n: u8,   // bytes consumed
    len: u8, // bytes available (<= 16)
}

fn load16(code: &[u8]) -> Cur {
    let l = code.len();
    let mut w: u128 = 0;
    if l > 0 { w |= code[0] as u128; }
    if l > 1 { w |= (code[1] as u128) << 8; }
    if l > 2 { w |= (code[2] as u128) << 16; }
    if l > 3 { w |= (code[3] as u128) << 24; }
    if l > 4 { w |= (code[4] as u128) << 32; }
    if l > 5 { w |= (code[5] as u128) << 40; }
    if l > 6 { w |= (code[6] as u128) << 48; }
    if l > 7 { w |= (code[7] as u128) << 56; }
    if l > 8 { w |= (code[8] as u128) << 64; }
    if l > 9 { w |= (code[9] as u128) << 72; }
    if l > 10 { w |= (code[10] as u128) << 80; }
    if l > 11 { w |= (code[11] as u128) << 88; }
    if l > 12 { w |= (code[12] as u128) << 96; }
    if l > 13 { w |= (code[13] as u128) << 104; }
    if l > 14 { w |= (code[14] as u128) << 112; }
    if l > 15 { w |= (code[15] as u128) << 120; }
    Cur { w, n: 0, len: if l > 16 { 16 } else { l as u8 } }
}

impl Cur {
    fn u8(&mut self) -> u8 {
        let b = self.w as u8;
        self.w >>= 8;
        self.n = self.n.wrapping_add(1);
        b
    }
    fn i8(&mut self) -> i64 {
        self.u8() as i8 as i64
    }
    fn i16(&mut self) -> i64 {
        let v = self.w as u16 as i16 as i64;
        self.w >>= 16;
        self.n = self.n.wrapping_add(2);
        v
    }
    fn i32(&mut self) -> i32 {
        let v = self.w as u32 as i32;
        self.w >>= 32;
        self.n = self.n.wrapping_add(4);
        v
    }
    fn i64(&mut self) -> i64 {
        let v = self.w as u64 as i64;
        self.w >>= 64;
        self.n = self.n.wrapping_add(8);
        v
    }
    /// immediate of the "imm16/32" column: imm16 for 16-bit, imm32 for 32-bit, imm32 sign-extended for 64-bit
    fn imm_z(&mut self, osz: u8) -> i64 {
        if osz == 16 { self.i16() } else { self.i32() as i64 }
    }
}

/// prefix / escape state common to legacy and VEX encodings
#[derive(Copy, Clone)]
struct Ctx {
    p66: bool,
    rep: u8, // 0, 0xF2, 0xF3 (last one seen)
    lock: bool,
    rexp: bool, // a REX prefix is present (changes the meaning of 8-bit register numbers 4..7)
    w: bool,
    r: bool,
    x: bool,
    b: bool,
    vex: bool,
    l: bool,
    v: u8,  // VEX.vvvv, already un-inverted (0 when unused / 1111b)
    pp: u8, // SIMD prefix: 0 none, 1 = 66, 2 = F3, 3 = F2
    sse_bad: bool, // legacy: 66 together with F2/F3 (undefined for SSE opcodes)
}

#[derive(Copy, Clone)]
struct ModRm {
    md: u8,
    reg: u8, // with REX.R / VEX.R
    is_reg: bool,
    rm: u8, // register number with REX.B (only when is_reg)
    base: i8,
    index: i8,
    scale: u8,
    disp: i32,
    rip: bool,
}

fn modrm(c: &mut Cur, x: &Ctx) -> ModRm {
    let m = c.u8();
    let md = m >> 6;
    let reg = ((m >> 3) & 7) | ((x.r as u8) << 3);
    let rm = m & 7;
    let bbit = (x.b as u8) << 3;
    let mut o = ModRm { md, reg, is_reg: false, rm: 0, base: -1, index: -1, scale: 1, disp: 0, rip: false };
    if md == 3 {
        o.is_reg = true;
        o.rm = rm | bbit;
        return o;
    }
    if rm == 4 {
        // SIB byte follows (SDM table 2-3)
        let sib = c.u8();
        let ss = sib >> 6;
        let idx = ((sib >> 3) & 7) | ((x.x as u8) << 3);
        let bs = sib & 7;
        if idx != 4 {
            o.index = idx as i8;
            o.scale = 1u8 << ss;
        }
        if bs == 5 && md == 0 {
            o.base = -1;
            o.disp = c.i32();
        } else {
            o.base = (bs | bbit) as i8;
        }
    } else if rm == 5 && md == 0 {
        o.rip = true;
        o.disp = c.i32();
    } else {
        o.base = (rm | bbit) as i8;
    }
    if md == 1 {
        o.disp = c.i8() as i32;
    } else if md == 2 {
        o.disp = c.i32();
    }
    o
}

fn g(num: u8, size: u8, rexp: bool) -> Operand {
    if size == 8 && !rexp && num >= 4 && num < 8 {
        Operand::Gpr { num: num + 16, size: 8 } // ah ch dh bh
    } else {
        Operand::Gpr { num, size }
    }
}
fn rm_mem(m: &ModRm, size: u8) -> Operand {
    Operand::Mem { base: m.base, index: m.index, scale: m.scale, disp: m.disp, rip: m.rip, size }
}
fn rm_g(m: &ModRm, size: u8, x: &Ctx) -> Operand {
    if m.is_reg { g(m.rm, size, x.rexp) } else { rm_mem(m, size) }
}
fn rm_x(m: &ModRm, memsize: u8) -> Operand {
    if m.is_reg { Operand::Xmm(m.rm) } else { rm_mem(m, memsize) }
}

fn alu_mn(k: u8) -> Mn {
    match k & 7 {
        0 => Mn::Add,
        1 => Mn::Or,
        2 => Mn::Adc,
        3 => Mn::Sbb,
        4 => Mn::And,
        5 => Mn::Sub,
        6 => Mn::Xor,
        _ => Mn::Cmp,
    }
}
fn shift_mn(k: u8) -> Mn {
    match k & 7 {
        0 => Mn::Rol,
        1 => Mn::Ror,
        2 => Mn::Rcl,
        3 => Mn::Rcr,
        4 => Mn::Shl,
        5 => Mn::Shr,
        6 => Mn::Unknown,
        _ => Mn::Sar,
    }
}
fn is_legacy_prefix(b: u8) -> bool {
    b == 0x66 || b == 0xF2 || b == 0xF3 || b == 0xF0
}
fn apply_prefix(x: &mut Ctx, b: u8) {
    if b == 0x66 {
        x.p66 = true;
    } else if b == 0xF0 {
        x.lock = true;
    } else {
        x.rep = b;
    }
}

const UNKNOWN: Insn = Insn::new(Mn::Unknown, 0);

/// Decode ONE instruction at the start of `code`: the instruction and the number of bytes consumed.
pub fn decode(code: &[u8]) -> Option<(Insn, usize)> {
    let mut c = load16(code);
    let i = decode_insn(&mut c);
    if c.n > c.len || i.mn == Mn::Unknown {
        return None;
    }
    Some((i, c.n as usize))
}

fn decode_insn(c: &mut Cur) -> Insn {
    let mut x = Ctx { p66: false, rep: 0, lock: false, rexp: false, w: false, r: false, x: false, b: false, vex: false, l: false, v: 0, pp: 0, sse_bad: false };
    let mut b = c.u8();
    // legacy prefixes (group 1: F0 F2 F3, group 3: 66), at most four, any order
    let mut npfx = 0u8;
    if is_legacy_prefix(b) {
        apply_prefix(&mut x, b);
        npfx += 1;
        b = c.u8();
    }
    if is_legacy_prefix(b) {
        apply_prefix(&mut x, b);
        npfx += 1;
        b = c.u8();
    }
    if is_legacy_prefix(b) {
        apply_prefix(&mut x, b);
        npfx += 1;
        b = c.u8();
    }
    if is_legacy_prefix(b) {
        apply_prefix(&mut x, b);
        npfx += 1;
        b = c.u8();
    }
    let mut map = 0u8;
    let op: u8;
    if b == 0xC5 || b == 0xC4 {
        // VEX (SDM 2.3.5). In 64-bit mode C4/C5 are always VEX; any 66/F2/F3/F0/REX before it is #UD.
        if npfx != 0 {
            return UNKNOWN;
        }
        x.vex = true;
        if b == 0xC5 {
            let p1 = c.u8();
            x.r = p1 & 0x80 == 0;
            x.v = (!(p1 >> 3)) & 15;
            x.l = p1 & 4 != 0;
            x.pp = p1 & 3;
            map = 1;
        } else {
            let p1 = c.u8();
            let p2 = c.u8();
            x.r = p1 & 0x80 == 0;
            x.x = p1 & 0x40 == 0;
            x.b = p1 & 0x20 == 0;
            let mm = p1 & 0x1F;
            if mm < 1 || mm > 3 {
                return UNKNOWN;
            }
            map = mm;
            x.w = p2 & 0x80 != 0;
            x.v = (!(p2 >> 3)) & 15;
            x.l = p2 & 4 != 0;
            x.pp = p2 & 3;
        }
        // SIMD prefix encoding pp: 00 none, 01 = 66, 10 = F3, 11 = F2  (same numbering as Ctx::pp)
        op = c.u8();
    } else {
        if b & 0xF0 == 0x40 {
            x.rexp = true;
            x.w = b & 8 != 0;
            x.r = b & 4 != 0;
            x.x = b & 2 != 0;
            x.b = b & 1 != 0;
            b = c.u8();
        }
        if b == 0x0F {
            let b2 = c.u8();
            if b2 == 0x38 {
                map = 2;
                op = c.u8();
            } else if b2 == 0x3A {
                map = 3;
                op = c.u8();
            } else {
                map = 1;
                op = b2;
            }
        } else {
            op = b;
        }
        x.pp = if x.rep == 0xF3 {
            2
        } else if x.rep == 0xF2 {
            3
        } else if x.p66 {
            1
        } else {
            0
        };
        x.sse_bad = x.rep != 0 && x.p66;
    }
    let mut i = if map == 0 {
        decode_map0(c, &x, op)
    } else if map == 1 {
        decode_map1(c, &x, op)
    } else if map == 3 {
        decode_map3(c, &x, op)
    } else {
        UNKNOWN
    };
    if i.mn == Mn::Unknown {
        return UNKNOWN;
    }
    i.vex = x.vex;
    if x.lock {
        // LOCK is only defined for these read-modify-write instructions with a memory destination
        let lockable = match i.mn {
            Mn::Add | Mn::Or | Mn::Adc | Mn::Sbb | Mn::And | Mn::Sub | Mn::Xor | Mn::Xchg | Mn::Cmpxchg | Mn::Xadd | Mn::Inc | Mn::Dec | Mn::Neg | Mn::Not => true,
            _ => false,
        };
        let memdest = match i.ops[0] {
            Operand::Mem { .. } => true,
            _ => false,
        };
        if !(lockable && memdest) {
            return UNKNOWN;
        }
        i.lock = true;
    }
    i
}

/// integer instruction that does not define the 66 prefix: refuse it
fn no66(x: &Ctx, i: Insn) -> Insn {
    if x.p66 { UNKNOWN } else { i }
}
/// keep an F2/F3 prefix that is not part of the opcode visible
fn with_rep(x: &Ctx, mut i: Insn) -> Insn {
    i.rep = x.rep;
    i
}

fn decode_map0(c: &mut Cur, x: &Ctx, op: u8) -> Insn {
    let osz: u8 = if x.w { 64 } else if x.p66 { 16 } else { 32 };
    let o16 = osz as u16;
    if op < 0x40 {
        let k = op & 7;
        if k >= 6 {
            return UNKNOWN;
        }
        let mn = alu_mn(op >> 3);
        if k < 4 {
            let sz = if k & 1 == 0 { 8 } else { osz };
            let m = modrm(c, x);
            let rmo = rm_g(&m, sz, x);
            let ro = g(m.reg, sz, x.rexp);
            let i = if k < 2 { Insn::op2(mn, sz as u16, rmo, ro) } else { Insn::op2(mn, sz as u16, ro, rmo) };
            return with_rep(x, if sz == 8 { no66(x, i) } else { i });
        }
        if k == 4 {
            let v = c.i8();
            return with_rep(x, no66(x, Insn::op2(mn, 8, gpr(0, 8), Operand::Imm(v))));
        }
        let v = c.imm_z(osz);
        return with_rep(x, Insn::op2(mn, o16, gpr(0, osz), Operand::Imm(v)));
    }
    let bbit = (x.b as u8) << 3;
    let i = match op {
        0x50..=0x57 => {
            // default operand size 64 in 64-bit mode; 66 selects 16 unless REX.W is set
            let sz = if x.p66 && !x.w { 16 } else { 64 };
            Insn::op1(Mn::Push, sz as u16, gpr((op & 7) | bbit, sz))
        }
        0x58..=0x5F => {
            let sz = if x.p66 && !x.w { 16 } else { 64 };
            Insn::op1(Mn::Pop, sz as u16, gpr((op & 7) | bbit, sz))
        }
        0x63 => {
            let m = modrm(c, x);
            Insn::op2(Mn::Movsxd, o16, gpr(m.reg, osz), rm_g(&m, 32, x))
        }
        0x70..=0x7F => {
            let d = c.i8() as i32;
            no66(x, Insn::op1(Mn::Jcc, 0, Operand::Rel(d)).with_cc(op & 15))
        }
        0x80 => {
            let m = modrm(c, x);
            let v = c.i8();
            no66(x, Insn::op2(alu_mn(m.reg), 8, rm_g(&m, 8, x), Operand::Imm(v)))
        }
        0x81 => {
            let m = modrm(c, x);
            let v = c.imm_z(osz);
            Insn::op2(alu_mn(m.reg), o16, rm_g(&m, osz, x), Operand::Imm(v))
        }
        0x83 => {
            let m = modrm(c, x);
            let v = c.i8();
            Insn::op2(alu_mn(m.reg), o16, rm_g(&m, osz, x), Operand::Imm(v))
        }
        0x84 | 0x86 | 0x88 => {
            let m = modrm(c, x);
            let mn = if op == 0x84 { Mn::Test } else if op == 0x86 { Mn::Xchg } else { Mn::Mov };
            no66(x, Insn::op2(mn, 8, rm_g(&m, 8, x), g(m.reg, 8, x.rexp)))
        }
        0x85 | 0x87 | 0x89 => {
            let m = modrm(c, x);
            let mn = if op == 0x85 { Mn::Test } else if op == 0x87 { Mn::Xchg } else { Mn::Mov };
            Insn::op2(mn, o16, rm_g(&m, osz, x), gpr(m.reg, osz))
        }
        0x8A => {
            let m = modrm(c, x);
            no66(x, Insn::op2(Mn::Mov, 8, g(m.reg, 8, x.rexp), rm_g(&m, 8, x)))
        }
        0x8B => {
            let m = modrm(c, x);
            Insn::op2(Mn::Mov, o16, gpr(m.reg, osz), rm_g(&m, osz, x))
        }
        0x8D => {
            let m = modrm(c, x);
            if m.is_reg {
                return UNKNOWN;
            }
            Insn::op2(Mn::Lea, o16, gpr(m.reg, osz), rm_mem(&m, 0))
        }
        0x90 => {
            // 90 is NOP only when REX.B = 0 (41 90 is xchg r8, rax); F3 90 is PAUSE (kept visible in rep)
            if x.b {
                return UNKNOWN;
            }
            no66(x, Insn::op0(Mn::Nop, 0))
        }
        0x98 => Insn::op0(Mn::Cbw, o16),
        0x99 => Insn::op0(Mn::Cwd, o16),
        0xA8 => {
            let v = c.i8();
            no66(x, Insn::op2(Mn::Test, 8, gpr(0, 8), Operand::Imm(v)))
        }
        0xA9 => {
            let v = c.imm_z(osz);
            Insn::op2(Mn::Test, o16, gpr(0, osz), Operand::Imm(v))
        }
        0xB0..=0xB7 => {
            let v = c.i8();
            no66(x, Insn::op2(Mn::Mov, 8, g((op & 7) | bbit, 8, x.rexp), Operand::Imm(v)))
        }
        0xB8..=0xBF => {
            let v = if osz == 64 { c.i64() } else { c.imm_z(osz) };
            Insn::op2(Mn::Mov, o16, gpr((op & 7) | bbit, osz), Operand::Imm(v))
        }
        0xC0 | 0xC1 | 0xD0 | 0xD1 | 0xD2 | 0xD3 => {
            let m = modrm(c, x);
            let sz = if op & 1 == 0 { 8 } else { osz };
            let cnt = if op < 0xD0 {
                Operand::Imm(c.u8() as i64)
            } else if op < 0xD2 {
                Operand::Imm(1)
            } else {
                CL
            };
            let i = Insn::op2(shift_mn(m.reg), sz as u16, rm_g(&m, sz, x), cnt);
            if sz == 8 { no66(x, i) } else { i }
        }
        0xC3 => no66(x, Insn::op0(Mn::Ret, 0)),
        0xCC => no66(x, Insn::op0(Mn::Int3, 0)),
        0xC6 => {
            let m = modrm(c, x);
            if m.reg & 7 != 0 {
                return UNKNOWN;
            }
            let v = c.i8();
            no66(x, Insn::op2(Mn::Mov, 8, rm_g(&m, 8, x), Operand::Imm(v)))
        }
        0xC7 => {
            let m = modrm(c, x);
            if m.reg & 7 != 0 {
                return UNKNOWN;
            }
            let v = c.imm_z(osz);
            Insn::op2(Mn::Mov, o16, rm_g(&m, osz, x), Operand::Imm(v))
        }
        0xE8 => {
            let d = c.i32();
            no66(x, Insn::op1(Mn::Call, 0, Operand::Rel(d)))
        }
        0xE9 => {
            let d = c.i32();
            no66(x, Insn::op1(Mn::Jmp, 0, Operand::Rel(d)))
        }
        0xEB => {
            let d = c.i8() as i32;
            no66(x, Insn::op1(Mn::Jmp, 0, Operand::Rel(d)))
        }
        0xF6 | 0xF7 => {
            let m = modrm(c, x);
            let sz = if op == 0xF6 { 8 } else { osz };
            let rmo = rm_g(&m, sz, x);
            let i = match m.reg & 7 {
                0 => {
                    let v = if sz == 8 { c.i8() } else { c.imm_z(osz) };
                    Insn::op2(Mn::Test, sz as u16, rmo, Operand::Imm(v))
                }
                2 => Insn::op1(Mn::Not, sz as u16, rmo),
                3 => Insn::op1(Mn::Neg, sz as u16, rmo),
                4 => Insn::op1(Mn::Mul, sz as u16, rmo),
                5 => Insn::op1(Mn::Imul, sz as u16, rmo),
                6 => Insn::op1(Mn::Div, sz as u16, rmo),
                7 => Insn::op1(Mn::Idiv, sz as u16, rmo),
                _ => UNKNOWN,
            };
            if sz == 8 { no66(x, i) } else { i }
        }
        0xFE => {
            let m = modrm(c, x);
            let rmo = rm_g(&m, 8, x);
            match m.reg & 7 {
                0 => no66(x, Insn::op1(Mn::Inc, 8, rmo)),
                1 => no66(x, Insn::op1(Mn::Dec, 8, rmo)),
                _ => UNKNOWN,
            }
        }
        0xFF => {
            let m = modrm(c, x);
            match m.reg & 7 {
                0 => Insn::op1(Mn::Inc, o16, rm_g(&m, osz, x)),
                1 => Insn::op1(Mn::Dec, o16, rm_g(&m, osz, x)),
                // near indirect call / jmp / push: operand size is 64 in 64-bit mode, REX.W not needed
                2 => no66(x, Insn::op1(Mn::Call, 64, rm_g(&m, 64, x))),
                4 => no66(x, Insn::op1(Mn::Jmp, 64, rm_g(&m, 64, x))),
                6 => no66(x, Insn::op1(Mn::Push, 64, rm_g(&m, 64, x))),
                _ => UNKNOWN,
            }
        }
        _ => UNKNOWN,
    };
    with_rep(x, i)
}

/// (opcode 51 / 58..5F except 5A 5B, SIMD prefix) -> mnemonic
fn sse_arith_mn(op: u8, pp: u8) -> Mn {
    match (op, pp) {
        (0x51, 0) => Mn::Sqrtps,
        (0x51, 1) => Mn::Sqrtpd,
        (0x51, 2) => Mn::Sqrtss,
        (0x51, _) => Mn::Sqrtsd,
        (0x58, 0) => Mn::Addps,
        (0x58, 1) => Mn::Addpd,
        (0x58, 2) => Mn::Addss,
        (0x58, _) => Mn::Addsd,
        (0x59, 0) => Mn::Mulps,
        (0x59, 1) => Mn::Mulpd,
        (0x59, 2) => Mn::Mulss,
        (0x59, _) => Mn::Mulsd,
        (0x5C, 0) => Mn::Subps,
        (0x5C, 1) => Mn::Subpd,
        (0x5C, 2) => Mn::Subss,
        (0x5C, _) => Mn::Subsd,
        (0x5D, 0) => Mn::Minps,
        (0x5D, 1) => Mn::Minpd,
        (0x5D, 2) => Mn::Minss,
        (0x5D, _) => Mn::Minsd,
        (0x5E, 0) => Mn::Divps,
        (0x5E, 1) => Mn::Divpd,
        (0x5E, 2) => Mn::Divss,
        (0x5E, _) => Mn::Divsd,
        (0x5F, 0) => Mn::Maxps,
        (0x5F, 1) => Mn::Maxpd,
        (0x5F, 2) => Mn::Maxss,
        (0x5F, _) => Mn::Maxsd,
        _ => Mn::Unknown,
    }
}
/// memory operand size selected by the SIMD prefix: packed 128 (256 with VEX.L), ss 32, sd 64
fn sse_memsize(x: &Ctx) -> u8 {
    match x.pp {
        2 => 32,
        3 => 64,
        _ => 128, // a 256-bit access is described by Insn::opsize
    }
}

/// two-operand SSE form `op a, b`; the VEX form must not use vvvv
fn sse2(x: &Ctx, mn: Mn, a: Operand, b: Operand) -> Insn {
    if x.vex && x.v != 0 {
        return UNKNOWN;
    }
    Insn::op2(mn, sse_opsize(x), a, b)
}
/// destructive two-operand legacy form `op dst, src` / non-destructive VEX form `op dst, vvvv, src`
fn sse3(x: &Ctx, mn: Mn, dst: Operand, src: Operand) -> Insn {
    if x.vex { Insn::op3(mn, sse_opsize(x), dst, Operand::Xmm(x.v), src) } else { Insn::op2(mn, sse_opsize(x), dst, src) }
}
fn sse_opsize(x: &Ctx) -> u16 {
    if x.vex && x.l { 256 } else { 128 }
}

fn decode_map1(c: &mut Cur, x: &Ctx, op: u8) -> Insn {
    let osz: u8 = if x.w { 64 } else if x.p66 { 16 } else { 32 };
    let o16 = osz as u16;
    let gsz: u8 = if x.w { 64 } else { 32 };
    // ---- SSE / AVX opcodes: the SIMD prefix selects the instruction ----
    let is_sse = match op {
        0x10 | 0x11 | 0x28 | 0x29 | 0x2A | 0x2C | 0x2D | 0x2E | 0x2F | 0x51 | 0x54..=0x5A | 0x5C..=0x5F | 0x6E | 0x7E | 0xD6 | 0xEF => true,
        _ => false,
    };
    if is_sse {
        if x.sse_bad {
            return UNKNOWN;
        }
        let m = modrm(c, x);
        let xr = Operand::Xmm(m.reg);
        let pp = x.pp;
        return match op {
            0x10 | 0x11 => {
                let mn = match pp {
                    0 => Mn::Movups,
                    1 => Mn::Movupd,
                    2 => Mn::Movss,
                    _ => Mn::Movsd,
                };
                let rmo = rm_x(&m, sse_memsize(x));
                if x.vex && pp >= 2 && m.is_reg {
                    // VMOVSS/VMOVSD xmm1, xmm2, xmm3: merge form, three operands
                    if op == 0x10 { Insn::op3(mn, sse_opsize(x), xr, Operand::Xmm(x.v), rmo) } else { Insn::op3(mn, sse_opsize(x), rmo, Operand::Xmm(x.v), xr) }
                } else if op == 0x10 {
                    sse2(x, mn, xr, rmo)
                } else {
                    sse2(x, mn, rmo, xr)
                }
            }
            0x28 | 0x29 => {
                let mn = match pp {
                    0 => Mn::Movaps,
                    1 => Mn::Movapd,
                    _ => return UNKNOWN,
                };
                let rmo = rm_x(&m, 128);
                if op == 0x28 { sse2(x, mn, xr, rmo) } else { sse2(x, mn, rmo, xr) }
            }
            0x2A => {
                let mn = match pp {
                    2 => Mn::Cvtsi2ss,
                    3 => Mn::Cvtsi2sd,
                    _ => return UNKNOWN, // cvtpi2ps/pd (MMX) not offered
                };
                sse3(x, mn, xr, rm_g(&m, gsz, x))
            }
            0x2C | 0x2D => {
                let mn = match (op, pp) {
                    (0x2C, 2) => Mn::Cvttss2si,
                    (0x2C, 3) => Mn::Cvttsd2si,
                    (0x2D, 2) => Mn::Cvtss2si,
                    (0x2D, 3) => Mn::Cvtsd2si,
                    _ => return UNKNOWN,
                };
                sse2(x, mn, gpr(m.reg, gsz), rm_x(&m, sse_memsize(x)))
            }
            0x2E | 0x2F => {
                let (mn, ms) = match (op, pp) {
                    (0x2E, 0) => (Mn::Ucomiss, 32),
                    (0x2E, 1) => (Mn::Ucomisd, 64),
                    (0x2F, 0) => (Mn::Comiss, 32),
                    (0x2F, 1) => (Mn::Comisd, 64),
                    _ => return UNKNOWN,
                };
                sse2(x, mn, xr, rm_x(&m, ms))
            }
            0x51 | 0x58 | 0x59 | 0x5C..=0x5F => {
                let mn = sse_arith_mn(op, pp);
                let rmo = rm_x(&m, sse_memsize(x));
                if op == 0x51 && pp < 2 { sse2(x, mn, xr, rmo) } else { sse3(x, mn, xr, rmo) }
            }
            0x54..=0x57 => {
                let mn = match (op, pp) {
                    (0x54, 0) => Mn::Andps,
                    (0x54, 1) => Mn::Andpd,
                    (0x55, 0) => Mn::Andnps,
                    (0x55, 1) => Mn::Andnpd,
                    (0x56, 0) => Mn::Orps,
                    (0x56, 1) => Mn::Orpd,
                    (0x57, 0) => Mn::Xorps,
                    (0x57, 1) => Mn::Xorpd,
                    _ => return UNKNOWN,
                };
                sse3(x, mn, xr, rm_x(&m, 128))
            }
            0x5A => match pp {
                2 => sse3(x, Mn::Cvtss2sd, xr, rm_x(&m, 32)),
                3 => sse3(x, Mn::Cvtsd2ss, xr, rm_x(&m, 64)),
                _ => UNKNOWN, // cvtps2pd / cvtpd2ps not offered
            },
            0x6E => {
                if pp != 1 || (x.vex && x.l) {
                    return UNKNOWN;
                }
                sse2(x, if x.w { Mn::Movq } else { Mn::Movd }, xr, rm_g(&m, gsz, x))
            }
            0x7E => {
                if x.vex && x.l {
                    return UNKNOWN;
                }
                match pp {
                    1 => sse2(x, if x.w { Mn::Movq } else { Mn::Movd }, rm_g(&m, gsz, x), xr),
                    2 => sse2(x, Mn::Movq, xr, rm_x(&m, 64)),
                    _ => UNKNOWN,
                }
            }
            0xD6 => {
                if pp != 1 || (x.vex && x.l) {
                    return UNKNOWN;
                }
                sse2(x, Mn::Movq, rm_x(&m, 64), xr)
            }
            _ => {
                // 0xEF
                if pp != 1 {
                    return UNKNOWN;
                }
                sse3(x, Mn::Pxor, xr, rm_x(&m, 128))
            }
        };
    }
    // ---- integer opcodes of the 0F map: no VEX form ----
    if x.vex {
        return UNKNOWN;
    }
    let mut rep_used = false;
    let i = match op {
        0x40..=0x4F => {
            let m = modrm(c, x);
            Insn::op2(Mn::Cmovcc, o16, gpr(m.reg, osz), rm_g(&m, osz, x)).with_cc(op & 15)
        }
        0x80..=0x8F => {
            let d = c.i32();
            no66(x, Insn::op1(Mn::Jcc, 0, Operand::Rel(d)).with_cc(op & 15))
        }
        0x90..=0x9F => {
            let m = modrm(c, x);
            no66(x, Insn::op1(Mn::Setcc, 8, rm_g(&m, 8, x)).with_cc(op & 15))
        }
        0xAE => {
            let b = c.u8();
            let mn = match b {
                0xE8 => Mn::Lfence,
                0xF0 => Mn::Mfence,
                0xF8 => Mn::Sfence,
                _ => return UNKNOWN,
            };
            if x.rep != 0 {
                return UNKNOWN;
            }
            no66(x, Insn::op0(mn, 0))
        }
        0xAF => {
            let m = modrm(c, x);
            Insn::op2(Mn::Imul, o16, gpr(m.reg, osz), rm_g(&m, osz, x))
        }
        0xB0 | 0xC0 => {
            let m = modrm(c, x);
            no66(x, Insn::op2(if op == 0xB0 { Mn::Cmpxchg } else { Mn::Xadd }, 8, rm_g(&m, 8, x), g(m.reg, 8, x.rexp)))
        }
        0xB1 | 0xC1 => {
            let m = modrm(c, x);
            Insn::op2(if op == 0xB1 { Mn::Cmpxchg } else { Mn::Xadd }, o16, rm_g(&m, osz, x), gpr(m.reg, osz))
        }
        0xB6 | 0xB7 | 0xBE | 0xBF => {
            let m = modrm(c, x);
            let ssz = if op & 1 == 0 { 8 } else { 16 };
            Insn::op2(if op < 0xB8 { Mn::Movzx } else { Mn::Movsx }, o16, gpr(m.reg, osz), rm_g(&m, ssz, x))
        }
        0xB8 => {
            if x.rep != 0xF3 {
                return UNKNOWN;
            }
            rep_used = true;
            let m = modrm(c, x);
            Insn::op2(Mn::Popcnt, o16, gpr(m.reg, osz), rm_g(&m, osz, x))
        }
        0xBC | 0xBD => {
            let m = modrm(c, x);
            let mn = if x.rep == 0xF3 {
                rep_used = true;
                if op == 0xBC { Mn::Tzcnt } else { Mn::Lzcnt }
            } else if op == 0xBC {
                Mn::Bsf
            } else {
                Mn::Bsr
            };
            Insn::op2(mn, o16, gpr(m.reg, osz), rm_g(&m, osz, x))
        }
        _ => UNKNOWN,
    };
    if rep_used { i } else { with_rep(x, i) }
}

fn decode_map3(c: &mut Cur, x: &Ctx, op: u8) -> Insn {
    if x.sse_bad {
        return UNKNOWN;
    }
    match op {
        0x0A | 0x0B => {
            if x.pp != 1 {
                return UNKNOWN;
            }
            let m = modrm(c, x);
            let (mn, ms) = if op == 0x0A { (Mn::Roundss, 32) } else { (Mn::Roundsd, 64) };
            let rmo = rm_x(&m, ms);
            let mode = Operand::Imm(c.u8() as i64);
            if x.vex {
                Insn::op4(mn, sse_opsize(x), Operand::Xmm(m.reg), Operand::Xmm(x.v), rmo, mode)
            } else {
                Insn::op3(mn, 128, Operand::Xmm(m.reg), rmo, mode)
            }
        }
        _ => UNKNOWN,
    }
}

// ------------------------------------------------------------------------------------------------
// AT&T rendering in the style of `llvm-mc --disassemble` (oracle self-test only)

#[cfg(not(kani))]
pub fn cc_name(cc: u8) -> &'static str {
    ["o", "no", "b", "ae", "e", "ne", "be", "a", "s", "ns", "p", "np", "l", "ge", "le", "g"][(cc & 15) as usize]
}

#[cfg(not(kani))]
pub fn reg_name(num: u8, size: u8) -> String {
    const N64: [&str; 8] = ["ax", "cx", "dx", "bx", "sp", "bp", "si", "di"];
    if size == 8 {
        if num >= 20 && num < 24 {
            return ["%ah", "%ch", "%dh", "%bh"][(num - 20) as usize].to_string();
        }
        if num < 4 {
            return format!("%{}l", &N64[num as usize][..1]);
        }
        if num < 8 {
            return format!("%{}l", N64[num as usize]);
        }
        return format!("%r{}b", num);
    }
    if num < 8 {
        let n = N64[num as usize];
        return match size {
            16 => format!("%{}", n),
            32 => format!("%e{}", n),
            _ => format!("%r{}", n),
        };
    }
    match size {
        16 => format!("%r{}w", num),
        32 => format!("%r{}d", num),
        _ => format!("%r{}", num),
    }
}

#[cfg(not(kani))]
pub fn render_operand(o: &Operand, branch_target: bool) -> String {
    render_operand_v(o, branch_target, false)
}
#[cfg(not(kani))]
pub fn render_operand_v(o: &Operand, branch_target: bool, ymm: bool) -> String {
    match *o {
        Operand::None => String::new(),
        Operand::Gpr { num, size } => {
            if branch_target { format!("*{}", reg_name(num, size)) } else { reg_name(num, size) }
        }
        Operand::Xmm(n) => format!("%{}mm{}", if ymm { "y" } else { "x" }, n),
        Operand::Imm(v) => format!("${}", v),
        Operand::Rel(d) => format!("{}", d),
        Operand::Unencodable => "<unencodable>".to_string(),
        Operand::Mem { base, index, scale, disp, rip, .. } => {
            let mut s = String::new();
            if branch_target {
                s.push('*');
            }
            if rip {
                if disp != 0 {
                    s += &format!("{}", disp);
                }
                s += "(%rip)";
                return s;
            }
            if disp != 0 || (base < 0 && index < 0) {
                s += &format!("{}", disp);
            }
            if base >= 0 || index >= 0 {
                s.push('(');
                if base >= 0 {
                    s += &reg_name(base as u8, 64);
                }
                if index >= 0 {
                    s += &format!(",{},{}", reg_name(index as u8, 64), scale);
                }
                s.push(')');
            }
            s
        }
    }
}

/// AT&T text of the instruction, e.g. "addq %rbx, %rax", "lock cmpxchgq %rdi, (%rax)".
#[cfg(not(kani))]
pub fn render(i: &Insn) -> String {
    let sfx = |sz: u16| match sz {
        8 => "b",
        16 => "w",
        32 => "l",
        64 => "q",
        _ => "",
    };
    let osfx = sfx(i.opsize);
    let srcsize = |o: &Operand| -> u16 {
        match *o {
            Operand::Gpr { size, .. } => size as u16,
            Operand::Mem { size, .. } => size as u16,
            _ => 0,
        }
    };
    let base = format!("{:?}", i.mn).to_lowercase();
    let mut branch = false;
    let name: String = match i.mn {
        Mn::Add | Mn::Or | Mn::Adc | Mn::Sbb | Mn::And | Mn::Sub | Mn::Xor | Mn::Cmp | Mn::Mov | Mn::Lea | Mn::Test | Mn::Xchg | Mn::Cmpxchg | Mn::Xadd | Mn::Imul | Mn::Mul | Mn::Idiv | Mn::Div | Mn::Neg | Mn::Not | Mn::Inc | Mn::Dec | Mn::Rol | Mn::Ror | Mn::Rcl | Mn::Rcr | Mn::Shl | Mn::Shr | Mn::Sar | Mn::Push | Mn::Pop | Mn::Popcnt | Mn::Lzcnt | Mn::Tzcnt | Mn::Bsr | Mn::Bsf => {
            if i.mn == Mn::Mov && i.opsize == 64 {
                if let (Operand::Gpr { .. }, Operand::Imm(v)) = (i.ops[0], i.ops[1]) {
                    if v < -2147483648 || v > 2147483647 {
                        let p = if i.rep == 0xF3 { "rep " } else if i.rep == 0xF2 { "repne " } else { "" };
                        return format!("{}movabsq ${}, {}", p, v, render_operand(&i.ops[0], false));
                    }
                }
            }
            format!("{}{}", base, osfx)
        }
        Mn::Movzx => format!("movz{}{}", sfx(srcsize(&i.ops[1])), osfx),
        Mn::Movsx | Mn::Movsxd => format!("movs{}{}", sfx(srcsize(&i.ops[1])), osfx),
        Mn::Setcc => format!("set{}", cc_name(i.cc)),
        Mn::Cmovcc => format!("cmov{}{}", cc_name(i.cc), osfx),
        Mn::Jcc => format!("j{}", cc_name(i.cc)),
        Mn::Jmp | Mn::Call => {
            if let Operand::Rel(_) = i.ops[0] {
                if i.mn == Mn::Jmp { "jmp".to_string() } else { "callq".to_string() }
            } else {
                branch = true;
                format!("{}q", base)
            }
        }
        Mn::Ret => "retq".to_string(),
        Mn::Cbw => match i.opsize {
            16 => "cbtw",
            32 => "cwtl",
            _ => "cltq",
        }
        .to_string(),
        Mn::Cwd => match i.opsize {
            16 => "cwtd",
            32 => "cltd",
            _ => "cqto",
        }
        .to_string(),
        _ => {
            // llvm adds an l/q suffix to cvtsi2ss/sd only when the integer source is in memory
            let sx = match (i.mn, i.ops[(i.nops as usize).saturating_sub(1).min(3)]) {
                (Mn::Cvtsi2ss, Operand::Mem { size, .. }) | (Mn::Cvtsi2sd, Operand::Mem { size, .. }) => sfx(size as u16),
                _ => "",
            };
            if i.vex { format!("v{}{}", base, sx) } else { format!("{}{}", base, sx) }
        }
    };
    // VEX.L = 1 on a packed instruction: ymm registers
    let ymm = i.vex && i.opsize == 256 && base.len() > 2 && (base.ends_with("ps") || base.ends_with("pd") || i.mn == Mn::Pxor);
    let mut s = String::new();
    if i.lock {
        s += "lock ";
    }
    if i.rep == 0xF3 {
        s += "rep ";
    }
    if i.rep == 0xF2 {
        s += "repne ";
    }
    s += &name;
    let n = i.nops as usize;
    let mut k = n;
    let mut first = true;
    while k > 0 {
        k -= 1;
        s += if first { " " } else { ", " };
        first = false;
        s += &render_operand_v(&i.ops[k], branch, ymm);
    }
    s
}
