//! vp — operand source and outcome plumbing shared by every assembler contract row.
//!
//! The SAME contract row (a plain Rust function over `&mut Src`) is compiled two ways:
//!  * under Kani (`cfg(kani)`): every operand is `kani::any()` constrained only by its type
//!    invariant; `vp_check!` is an assertion whose message starts with "VP:"; CBMC decides the
//!    row for all operands at once;
//!  * as an ordinary binary (replay / oracle self-test): operands are popped from a concrete
//!    list (the verifier's counterexample, or seeded samples) and the row is executed against
//!    the real assembler; a failed `vp_check!` is recorded.
#![allow(dead_code)]

#[cfg(not(kani))]
use std::cell::RefCell;

pub struct Src {
    #[cfg(not(kani))]
    pub vals: Vec<u64>,
    #[cfg(not(kani))]
    pub pos: usize,
    #[cfg(not(kani))]
    pub rng: u64,
    #[cfg(not(kani))]
    pub drawn: Vec<u64>,
}

#[cfg(not(kani))]
thread_local! {
    pub static FAILURES: RefCell<Vec<String>> = RefCell::new(Vec::new());
    pub static NOTES: RefCell<Vec<String>> = RefCell::new(Vec::new());
}

impl Src {
    #[cfg(kani)]
    pub fn symbolic() -> Src {
        Src {}
    }
    #[cfg(not(kani))]
    pub fn concrete(vals: Vec<u64>) -> Src {
        Src { vals, pos: 0, rng: 0, drawn: Vec::new() }
    }
    #[cfg(not(kani))]
    pub fn random(seed: u64) -> Src {
        Src { vals: Vec::new(), pos: 0, rng: seed | 1, drawn: Vec::new() }
    }

    #[cfg(not(kani))]
    fn next_raw(&mut self, bits: u32) -> u64 {
        let v = if self.pos < self.vals.len() {
            let v = self.vals[self.pos];
            self.pos += 1;
            v
        } else {
            // xorshift; biased towards boundary values
            self.rng ^= self.rng << 13;
            self.rng ^= self.rng >> 7;
            self.rng ^= self.rng << 17;
            let r = self.rng;
            let mask = if bits >= 64 { u64::MAX } else { (1u64 << bits) - 1 };
            match (r >> 60) & 7 {
                0 => 0,
                1 => mask,
                2 => mask >> 1,
                3 => (mask >> 1) + 1,
                4 => (r >> 8) & 0xff,
                5 => (1u64 << ((r >> 8) % bits as u64)).wrapping_sub((r >> 20) & 1),
                _ => r.rotate_left(17),
            }
        };
        let mask = if bits >= 64 { u64::MAX } else { (1u64 << bits) - 1 };
        let v = v & mask;
        self.drawn.push(v);
        v
    }

    #[cfg(kani)]
    pub fn u8(&mut self) -> u8 {
        kani::any()
    }
    #[cfg(not(kani))]
    pub fn u8(&mut self) -> u8 {
        self.next_raw(8) as u8
    }
    #[cfg(kani)]
    pub fn u16(&mut self) -> u16 {
        kani::any()
    }
    #[cfg(not(kani))]
    pub fn u16(&mut self) -> u16 {
        self.next_raw(16) as u16
    }
    #[cfg(kani)]
    pub fn u32(&mut self) -> u32 {
        kani::any()
    }
    #[cfg(not(kani))]
    pub fn u32(&mut self) -> u32 {
        self.next_raw(32) as u32
    }
    #[cfg(kani)]
    pub fn u64(&mut self) -> u64 {
        kani::any()
    }
    #[cfg(not(kani))]
    pub fn u64(&mut self) -> u64 {
        self.next_raw(64)
    }
    pub fn i32(&mut self) -> i32 {
        self.u32() as i32
    }
    pub fn i64(&mut self) -> i64 {
        self.u64() as i64
    }
    pub fn bool(&mut self) -> bool {
        self.below(2) == 1
    }
    /// a value in 0..n (n <= 255). Under Kani: any u8 assumed < n.
    #[cfg(kani)]
    pub fn below(&mut self, n: u8) -> u8 {
        let v: u8 = kani::any();
        kani::assume(v < n);
        v
    }
    #[cfg(not(kani))]
    pub fn below(&mut self, n: u8) -> u8 {
        let v = self.next_raw(8) as u8;
        // keep the recorded draw equal to the value used
        let r = v % n;
        if let Some(l) = self.drawn.last_mut() {
            *l = r as u64;
        }
        r
    }
    /// restrict the operand domain (a type invariant, e.g. "distinct registers").
    #[cfg(kani)]
    pub fn assume(&mut self, c: bool) {
        kani::assume(c);
    }
    #[cfg(not(kani))]
    pub fn assume(&mut self, c: bool) {
        if !c {
            std::panic::panic_any(AssumeFailed);
        }
    }
}

#[cfg(not(kani))]
pub struct AssumeFailed;

/// postcondition clause. Message must describe the clause; "VP:" is prepended.
#[macro_export]
macro_rules! vp_check {
    ($cond:expr, $msg:expr) => {{
        #[cfg(kani)]
        {
            assert!($cond, concat!("VP: ", $msg));
        }
        #[cfg(not(kani))]
        {
            if !($cond) {
                $crate::vp::FAILURES.with(|f| f.borrow_mut().push(concat!("VP: ", $msg).to_string()));
            }
        }
    }};
}

/// free-form note recorded in replay mode (bytes, decoded form, expected form)
#[macro_export]
macro_rules! vp_note {
    ($($arg:tt)*) => {{
        #[cfg(not(kani))]
        {
            $crate::vp::NOTES.with(|f| f.borrow_mut().push(format!($($arg)*)));
        }
    }};
}

/// One contract row = one module `name` with `run(&mut Src)` and, under Kani, `proof()`.
#[macro_export]
macro_rules! vp_harness {
    ($name:ident, |$s:ident| $body:block) => {
        pub mod $name {
            #[allow(unused_imports)]
            use super::*;
            pub fn run($s: &mut $crate::vp::Src) $body
            #[cfg(kani)]
            #[kani::proof]
            pub fn proof() {
                let mut s = $crate::vp::Src::symbolic();
                run(&mut s);
                kani::cover!(true, "VP-REACH");
            }
        }
    };
    ($name:ident, unwind = $n:expr, |$s:ident| $body:block) => {
        pub mod $name {
            #[allow(unused_imports)]
            use super::*;
            pub fn run($s: &mut $crate::vp::Src) $body
            #[cfg(kani)]
            #[kani::proof]
            #[kani::unwind($n)]
            pub fn proof() {
                let mut s = $crate::vp::Src::symbolic();
                run(&mut s);
                kani::cover!(true, "VP-REACH");
            }
        }
    };
}

/// Outcome of running one row concretely.
#[cfg(not(kani))]
#[derive(Debug)]
pub enum Outcome {
    Held,
    Refused(String),
    AssumeFailed,
    Violated(Vec<String>),
}

#[cfg(not(kani))]
pub fn run_concrete(f: fn(&mut Src), s: &mut Src) -> (Outcome, Vec<String>) {
    FAILURES.with(|x| x.borrow_mut().clear());
    NOTES.with(|x| x.borrow_mut().clear());
    let r = std::panic::catch_unwind(std::panic::AssertUnwindSafe(|| f(s)));
    let notes = NOTES.with(|x| x.borrow().clone());
    let fails = FAILURES.with(|x| x.borrow().clone());
    if !fails.is_empty() {
        return (Outcome::Violated(fails), notes);
    }
    match r {
        Ok(()) => (Outcome::Held, notes),
        Err(e) => {
            if e.downcast_ref::<AssumeFailed>().is_some() {
                (Outcome::AssumeFailed, notes)
            } else if let Some(m) = e.downcast_ref::<String>() {
                (Outcome::Refused(m.clone()), notes)
            } else if let Some(m) = e.downcast_ref::<&str>() {
                (Outcome::Refused(m.to_string()), notes)
            } else {
                (Outcome::Refused("panic".into()), notes)
            }
        }
    }
}
