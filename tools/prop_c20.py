"""C20 — editor positions: offset <-> (line, UTF-16 column) round trip and clamping (position.rs)."""
import os
import re

import common
import vprop

PROP = 'C20'


def _position_module():
    """position.rs of the working tree, verbatim, minus its #[cfg(test)] module."""
    p = os.path.join(common.repo_root(), 'dora-language-server/src/position.rs')
    text = open(p, encoding='utf-8').read()
    i = text.find('#[cfg(test)]')
    if i >= 0:
        text = text[:i]
    return '#![allow(unused)]\n' + text


def _docsym_module():
    """scan_single_file / element_to_document_symbol / compute_element_propertiees of document_symbols.rs, cut verbatim
    (the request handler, which needs the server state and lsp_server, is dropped together with its two `use` lines)."""
    from rustcut import Source
    p = os.path.join(common.repo_root(), 'dora-language-server/src/document_symbols.rs')
    S = Source(p)
    uses = [l for l in S.src.split('\n') if l.startswith('use ') and 'lsp_server' not in l and 'crate::server' not in l]
    i = S.src.find('#[cfg(test)]')
    end = i if i >= 0 else len(S.src)
    names = [n for (n, pos) in S.fns_in(0, end, 0) if n != 'document_symbol_request']
    if 'scan_single_file' not in names:
        raise RuntimeError('scan_single_file not found in document_symbols.rs')
    out = ['#![allow(unused)]'] + uses + ['']
    for n in names:
        out.append(S.cut_fn(n, 0, end, depth=0)['text'])
        out.append('')
    out.append('pub fn vx_scan(content: Arc<String>) -> Vec<DocumentSymbol> { scan_single_file(content) }')
    return '\n'.join(out) + '\n', names


def _wssym_module():
    """append_workspace_symbol_for_element / compute_element_properties / scan_project of workspace_symbols.rs and
    file_path_to_uri of server.rs, cut verbatim (request handler and server state dropped)."""
    from rustcut import Source
    p = os.path.join(common.repo_root(), 'dora-language-server/src/workspace_symbols.rs')
    S = Source(p)
    uses = [l for l in S.src.split('\n') if l.startswith('use ') and 'lsp_server' not in l and 'crate::server' not in l]
    i = S.src.find('#[cfg(test)]')
    end = i if i >= 0 else len(S.src)
    names = [n for (n, pos) in S.fns_in(0, end, 0) if n != 'workspace_symbol_request']
    if 'append_workspace_symbol_for_element' not in names:
        raise RuntimeError('append_workspace_symbol_for_element not found in workspace_symbols.rs')
    out = ['#![allow(unused)]'] + uses + ['use std::path::Path;', 'use std::str::FromStr;', 'use std::sync::Arc;', 'use lsp_types::Uri;', 'use url::Url;', '']
    S2 = Source(os.path.join(common.repo_root(), 'dora-language-server/src/server.rs'))
    out.append(S2.cut_fn('file_path_to_uri', 0, len(S2.src), depth=0)['text'].replace('pub(crate) fn', 'fn'))
    out.append('')
    for n in names:
        out.append(S.cut_fn(n, 0, end, depth=0)['text'])
        out.append('')
    # driver: the same steps as scan_project, on an in-memory program (what the crate's own test helper does)
    out.append('pub fn vx_scan_ws(content: Arc<String>) -> Vec<WorkspaceSymbol> {\n'
               '    let mut sa = Sema::new(SemaCreationParams::new().set_program_content(content));\n'
               '    sa.parse_project();\n'
               '    let module = sa.module(sa.program_module_id());\n'
               '    let mut symbols = Vec::new();\n'
               '    for &element_id in module.children() { append_workspace_symbol_for_element(&sa, element_id, &mut symbols); }\n'
               '    symbols\n}')
    return '\n'.join(out) + '\n'


def _diag_module():
    """ProjectConfig and compile_project_main of server.rs (the diagnostics the server publishes), cut verbatim."""
    from rustcut import Source
    S = Source(os.path.join(common.repo_root(), 'dora-language-server/src/server.rs'))
    out = ['#![allow(unused)]', 'use std::collections::HashMap;', 'use std::path::PathBuf;', 'use lsp_types::{Diagnostic, DiagnosticSeverity, Position, Range};',
           'use dora_parser::compute_line_column;', 'use dora_frontend::Vfs;', 'use crate::position::span_to_range;', '']
    out.append(S.cut_item('struct', 'ProjectConfig')['text'])
    out.append('')
    # compile_project_main and, transitively, every top-level function of server.rs it calls (helpers a refactoring may introduce),
    # as long as they do not need the server state
    top = dict(S.fns_in(0, len(S.src), 0))
    todo, done = ['compile_project_main'], []
    while todo:
        n = todo.pop()
        if n in done:
            continue
        t = S.cut_fn(n, 0, len(S.src), depth=0)['text']
        if n != 'compile_project_main' and re.search(r'\b(ServerState|Connection|Message|Notification|threadpool)\b', t):
            continue
        done.append(n)
        out.append(t)
        out.append('')
        for m in re.finditer(r'\b([a-z_][a-z0-9_]*)\s*\(', t):
            if m.group(1) in top and m.group(1) not in done:
                todo.append(m.group(1))
    out.append("""
pub fn vx_diagnostics(text: &str) -> Vec<Diagnostic> {
    let main = PathBuf::from("/vx-c20/main.dora");
    let project = ProjectConfig { name: "p".into(), main: main.clone(), project_file: PathBuf::new(), is_standard_library: false };
    let vfs = Vfs::new().open_file(main.clone(), std::sync::Arc::new(text.to_string()));
    compile_project_main(&project, vfs).remove(&main).unwrap_or_default()
}
""")
    return '\n'.join(out) + '\n'


def _link_pkgs():
    """Sema::new looks for a `pkgs` directory next to an ancestor of the running executable: give the runner the working tree's."""
    d = common.ensure_dir(os.path.join(common.BUILD, 'target-runners', 'release'))
    link = os.path.join(d, 'pkgs')
    target = os.path.join(common.repo_root(), 'pkgs')
    if os.path.islink(link):
        if os.readlink(link) == target:
            return
        os.unlink(link)
    os.symlink(target, link)


def _runner_spec():
    docsym, _names = _docsym_module()
    _link_pkgs()
    return dict(name='c20', deps={'dora-parser': 'dora-parser', 'dora-frontend': 'dora-frontend'}, lock=True,
                extra_files={'position.rs': _position_module(), 'docsym.rs': docsym, 'wssym.rs': _wssym_module(), 'diag.rs': _diag_module()}, extra_deps=['lsp-types = "*"', 'url = "*"'],
                budget_quick_ms=4000, budget_thorough_ms=90000)


def run(tier):
    pre_und = []
    runner = None
    try:
        runner = _runner_spec()
    except Exception as e:
        pre_und.append('runner: %s' % e)
    units = [dict(vspec=os.path.join(common.VERIF, 'contracts', 'c20_position.vspec'))]
    assumptions = [
        'dora_parser::compute_line_starts is under contract too (ensures wf: starts with 0, strictly increasing, every entry a char boundary), after rewrite N4 of its '
        'Peekable<Chars> cursor into an index over the char sequence (chars.next() / chars.peek() == Some(&c) / chars.next().unwrap() -> indexed reads; 4 rewrites, listed in evidence); '
        'callers of the position functions are assumed to pass the table computed for the SAME text; the replay runner re-checks wf on every generated text',
        'documents are shorter than 4 GiB (offsets are u32)',
        'usize is 64 bits (dora targets x86-64 / AArch64)',
        'assumed std contracts (trusted_base): str range indexing (`&s[a..b]` = the chars between two boundaries; panics otherwise), '
        'str::chars (yields s@ in order), encode_utf16().count(), <[u32]>::binary_search, char::len_utf16',
        'N8: lsp_types::Position / Range replaced by field-identical local structs',
    ]
    samples = [
        dict(function='utf8_offset_to_utf16_position', contract='wf && boundary(offset) ==> result == (line_of(offset), utf16 length of the line prefix); no slice/index/overflow panic'),
        dict(function='utf16_position_to_utf8_offset', contract='wf ==> result == to_offset_spec(line, column) for EVERY (line, column); loop invariant over the scanned prefix'),
        dict(function='compute_line_starts', contract='text shorter than 4 GiB ==> wf(text, result) (all line-ending styles; loop invariant pos == byte length of the consumed prefix)'),
        dict(lemma='theorem_roundtrip', statement='wf && boundary(off) ==> to_offset(to_position(off)) == off   (all texts, all line-ending styles, astral characters)'),
        dict(lemma='theorem_clamp', statement='every (line, column) maps to a char boundary inside the document; line past the end -> document end; result inside its line'),
        dict(lemma='theorem_clamp_column', statement='column past the end of a line -> end of that line (incl. terminator)'),
    ]
    not_decided = ['document symbol ranges are NOT under contract (they need the front end): scan_single_file / element_to_document_symbol / compute_element_propertiees are cut verbatim from '
                   'document_symbols.rs and EXECUTED by the replay runner on generated program-like texts (ranges inside the document, selection inside range, children inside parents, no panic): sampled',
                   'workspace symbols: append_workspace_symbol_for_element / compute_element_properties / file_path_to_uri cut verbatim and executed the same way (location ranges inside the document, no panic): sampled',
                   'published diagnostics: ProjectConfig + compile_project_main of server.rs cut verbatim and executed; every published range must be the UTF-16 range (position.rs, proved) of its error span: sampled',
                   'goto-definition, the other server.rs request handlers',
                   'range_to_span (unused; `end - start` underflows for reversed ranges)']
    # published diagnostics: compile_project_main of server.rs, cut verbatim, executed on generated programs with mistakes after non-ASCII text
    diag_v, diag_info = [], None
    try:
        import json as _json
        spec = runner or _runner_spec()
        rb = common.build_runner(spec['name'], spec['deps'], lock=True, extra_files=spec['extra_files'], extra_deps=spec['extra_deps'])
        count = 40 if tier == 'quick' else 400
        rc, out, err, wall = common.run_cmd([rb, 'diag', str(common.seed()), str(count)], timeout=1200)
        diag_info = _json.loads(out.strip().split('\n')[-1])
        diag_info['wall_s'] = round(wall, 1)
        if diag_info.get('found'):
            diag_v.append(('runner:published diagnostic ranges', 'executable form of the C20 contract on the real server code: published diagnostic ranges are the UTF-16 ranges of the error spans',
                           dict(failing_input=dict(kind='diag', text_hex=diag_info['text_hex'], what=diag_info.get('what'))), True))
    except Exception as e:
        pre_und.append('diagnostics runner unavailable: %s' % str(e)[:500])
    return vprop.run_verus_property(PROP, tier, units, runner=runner, assumptions=assumptions, samples=samples,
                                    not_decided=not_decided, pre_undecided=pre_und, pre_violations=diag_v,
                                    extra_cov=dict(diagnostics_runner=diag_info))


def replay(rp):
    fi = rp.get('failing_input')
    if not fi:
        print('replay file carries no concrete input (no-failing-input-found); failed obligation: %s' % rp.get('obligation'))
        print(rp.get('verus_output', ''))
        return 1
    spec = _runner_spec()
    runner = common.build_runner(spec['name'], spec['deps'], lock=True, extra_files=spec['extra_files'], extra_deps=spec['extra_deps'])
    rc, out, err, _ = common.run_cmd([runner, {'symbols': 'replay-symbols', 'ws-symbols': 'replay-ws-symbols', 'diag': 'replay-diag'}.get(fi.get('kind'), 'replay'), fi['text_hex']])
    print(out.strip())
    return 1 if rc != 0 else 0
