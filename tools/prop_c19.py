"""C19 — Distinct functions get distinct, valid linker symbols.

Verus unit c19_symbol (all of dora-symbol/src/lib.rs under contract) + generated
fixed-symbol lemmas + premise check of AOT_SYMBOL_MAX_LEN + replay runner.
"""
import json
import os
import re
import time

import common
import vx
from rustcut import Source

PROP = 'C19'
ALLOW_NON_SYMBOLS = {
    # library / crate names and a debug print, not linker symbols of functions
    'dora_runtime', 'dora_startup', 'dora_stub',
}
SKIP_FILES = ('dora-symbol/src/lib.rs',      # unit-test vectors of the mangler itself
              'dora-runtime-macros/src/lib.rs')  # attribute names of a proc macro


def scan_fixed_symbols():
    """All complete string literals "dora_[A-Za-z0-9_]+" in the Rust sources of the working tree."""
    root = common.repo_root()
    found = {}
    for dp, dns, fns in os.walk(root):
        dns[:] = [d for d in dns if d not in ('target', '.git', 'node_modules')]
        for fn in fns:
            if not fn.endswith('.rs'):
                continue
            p = os.path.join(dp, fn)
            rel = os.path.relpath(p, root)
            if rel in SKIP_FILES:
                continue
            try:
                text = open(p, encoding='utf-8').read()
            except Exception:
                continue
            for m in re.finditer(r'"(dora_[A-Za-z0-9_]+)"', text):
                lit = m.group(1)
                ln = text.count('\n', 0, m.start()) + 1
                found.setdefault(lit, '%s:%d' % (rel, ln))
    return found


def extract_aot_closure():
    """aot_symbol_name plus every top-level fn / const of aot_compile.rs it (transitively) names, cut
    verbatim, so that the replay runner can execute the real call-site code against the real dora-symbol."""
    from rustcut import Source, CutError
    S = Source(os.path.join(common.repo_root(), 'dora-compiler/src/aot_compile.rs'))
    top_fns = {n for (n, pos) in S.fns_in(0, len(S.src), 0)}
    top_consts = set(re.findall(r'(?m)^(?:pub\s+)?const\s+([A-Z][A-Z0-9_]*)\s*:', S.src))
    want = ['aot_symbol_name']
    seen = set()
    out = []
    while want:
        n = want.pop()
        if n in seen:
            continue
        seen.add(n)
        if n in top_fns:
            d = S.cut_fn(n, depth=0)
        else:
            d = S.cut_item('const', n)
        out.append(d['text'])
        for ident in set(re.findall(r'[A-Za-z_][A-Za-z0-9_]*', d['text'])):
            if ident != n and (ident in top_fns or ident in top_consts) and ident not in seen:
                want.append(ident)
    if len(seen) > 12:
        raise CutError('aot_symbol_name closure is unexpectedly large: %s' % sorted(seen))
    text = '#![allow(unused)]\nuse dora_symbol::*;\n' + '\n'.join(reversed(out)) + '''
pub fn vx_aot_symbol_name(n: &str) -> String { aot_symbol_name(n) }
pub const VX_AOT_MAX: usize = AOT_SYMBOL_MAX_LEN;
'''
    return text, sorted(seen)


def is_upper_hex(c):
    return c in '0123456789ABCDEF'


def offending_underscore(lit):
    """Index (>= 5) of a '_' not followed by two upper-case hex digits, or None if the literal
    is in the image of mangle_name."""
    for i in range(5, len(lit)):
        if lit[i] == '_':
            if i + 2 >= len(lit) or not is_upper_hex(lit[i + 1]) or not is_upper_hex(lit[i + 2]):
                return i
    return None


def py_demangle(lit):
    body = lit[5:]
    out = bytearray()
    i = 0
    while i < len(body):
        if body[i] == '_':
            out.append(int(body[i + 1:i + 3], 16))
            i += 3
        else:
            out.append(ord(body[i]))
            i += 1
    return bytes(out)


def fixed_lemmas(lits):
    out = ['// ---- generated: no fixed runtime symbol is the mangled name of any function (one lemma per literal)']
    n = 0
    for lit, (where, i) in sorted(lits.items()):
        chars = ', '.join("'%s'" % c for c in lit)
        name = 'fixed_symbol_%d' % n
        n += 1
        body = []
        body.append('    let l = seq![%s];' % chars)
        body.append('    if mangle_spec(bs) == l {')
        body.append("        assert(l[%d] == '_');" % i)
        body.append('        assert(l.len() == %d);' % len(lit))
        body.append('        assert(esc_all(bs).len() == %d);' % (len(lit) - 5))
        body.append('        assert(esc_all(bs)[%d] == l[%d]);' % (i - 5, i))
        body.append('        lemma_underscore_grammar(bs, %d);' % (i - 5))
        if i + 2 < len(lit):
            body.append('        assert(esc_all(bs)[%d] == l[%d]);' % (i - 4, i + 1))
            body.append('        assert(esc_all(bs)[%d] == l[%d]);' % (i - 3, i + 2))
        body.append('        assert(false);')
        body.append('    }')
        out.append('// "%s" (%s)' % (lit, where))
        out.append('proof fn %s(bs: Seq<u8>)\n    ensures mangle_spec(bs) != seq![%s],\n{\n%s\n}' % (name, chars, '\n'.join(body)))
    return '\n'.join(out), n


def run(tier):
    t0 = time.time()
    rep = common.Report(PROP)
    root = common.repo_root()
    assumptions = [
        'distinct function instantiations have distinct display names (aot_compiled_function_name, dora-bytecode/display.rs): NOT proved; display_fct over all functions of generated programs is executed by runner c19names (sampled)',
        '128-bit FNV-1a is treated as collision-free on the unshortened symbols of one program (not provable: FNV is not injective); '
        'the contract pins WHAT is hashed (the whole unshortened symbol) and that equal shortened symbols imply equal hash and equal kept prefix',
        'std contracts assumed (listed in trusted_base): String::len/as_bytes/with_capacity, u8::is_ascii_alphanumeric, Option::copied, '
        'format!, str::strip_prefix, String::from_utf8, allocation size <= isize::MAX',
        'vstd specs of String::push/push_str, str::as_bytes/len, slice get/index, wrapping_mul; vstd::utf8 lemmas',
        'every symbol of a program goes through aot_symbol_name (call sites in aot_compile.rs/assembly.rs not under contract)',
    ]
    cov = dict(obligations=0, discharged=0, checker_cmd='', trusted_base=[], samples=[], units=[])

    # ---- fixed-symbol scan -> generated lemmas
    lits = scan_fixed_symbols()
    usable = {}
    in_image = []
    for lit, where in lits.items():
        if lit in ALLOW_NON_SYMBOLS:
            continue
        i = offending_underscore(lit)
        if i is None:
            in_image.append((lit, where))
        else:
            usable[lit] = (where, i)
    extra, nfixed = fixed_lemmas(usable)

    # ---- Verus
    res = None
    workdir = common.ensure_dir(os.path.join(common.BUILD, 'vx'))
    try:
        res = vx.verify_unit(os.path.join(common.VERIF, 'contracts', 'c19_symbol.vspec'), workdir, extra_postlude=extra)
    except vx.Undecided as e:
        rep.undecide(str(e))

    # ---- premise of theorem_no_mix
    max_len = None
    try:
        txt = open(os.path.join(root, 'dora-compiler/src/aot_compile.rs'), encoding='utf-8').read()
        m = re.search(r'const\s+AOT_SYMBOL_MAX_LEN\s*:\s*usize\s*=\s*([0-9_]+)\s*;', txt)
        if m:
            max_len = int(m.group(1).replace('_', ''))
        uses = len(re.findall(r'mangle_name_with_max_len\(\s*name\s*,\s*AOT_SYMBOL_MAX_LEN\s*\)', txt))
    except Exception:
        uses = 0
    if max_len is None or uses < 1:
        rep.undecide('AOT_SYMBOL_MAX_LEN / its use in aot_symbol_name not found in dora-compiler/src/aot_compile.rs (anchor lost)')

    # ---- replay runner (search)
    runner = None
    search = None
    try:
        aot_text, aot_items = extract_aot_closure()
        cov['call_site_items_executed_by_runner'] = aot_items
        runner = common.build_runner('c19', {'dora-symbol': 'dora-symbol'}, lock=False, extra_files={'aot.rs': aot_text})
        budget = 2500 if tier == 'quick' else 60000
        rc, out, err, wall = common.run_cmd([runner, 'search', str(common.seed()), str(budget)], timeout=budget / 1000 + 120)
        search = json.loads(out.strip().split('\n')[-1])
        search['wall_s'] = round(wall, 2)
    except Exception as e:
        rep.undecide('replay runner unavailable: %s' % str(e)[:500])

    found_input = bool(search and search.get('found'))
    payload_input = None
    if found_input:
        payload_input = dict(name_hex=search['name_hex'], name2_hex=search.get('name2_hex'), what=search['what'],
                             replay_cmd='bin/check replay <this file>')

    nviol = 0
    if res is not None:
        cov['obligations'] = res['obligations']
        cov['checker_cmd'] = res['cmd']
        cov['trusted_base'] = res['trusted']
        cov['units'].append(dict(unit=res['unit'], verus=res['stats'], wall_s=res['wall_s'], reach=res['reach'],
                                 functions_under_contract=res['functions_under_contract'],
                                 rewrites_applied=res['rewrites_applied'], sources=res['sources'],
                                 census={k: v for k, v in res['census'].items()}))
        cov['functions_under_contract'] = ['dora-symbol::' + f for f in res['functions_under_contract']]
        cov['fixed_symbol_lemmas'] = nfixed
        failed_obl = 0
        seen = set()
        for f in res['failures']:
            if f['obligation'] in seen:
                continue
            seen.add(f['obligation'])
            failed_obl += 1
            key = 'verus:%s:%s:%s' % (res['unit'], f['function'], f['kind'])
            payload = dict(unit=res['unit'], function=f['function'], kind=f['kind'], clause=f['clause'], origin=f['origin'],
                           verus_output=f['verus_output'], generated_file=res['generated'], verus_stats=res['stats'])
            if payload_input:
                payload['failing_input'] = payload_input
            if rep.violation(key, f['obligation'], payload, found_input):
                nviol += 1
        cov['discharged'] = (res['obligations'] - failed_obl) if res['ok'] or res['failures'] else 0
        if res['ok']:
            cov['discharged'] = res['obligations']
    if found_input and not (res and res['failures']):
        # a concrete failing input on the real code while every obligation verified: an assumed contract
        # (N7 wrapper) no longer describes the code, or the proof was undecided. The input speaks for itself.
        if rep.violation('runner:' + re.sub(r'[^a-z_ ]', '', search['what'].lower())[:60],
                      'executable form of the C19 contract on the real crate', dict(failing_input=payload_input), True):
            nviol += 1
    for lit, where in in_image:
        name = py_demangle(lit)
        if rep.violation('fixed-symbol:' + lit, 'fixed_symbol lemma for "%s" (%s): the literal is the mangled name of %r' % (lit, where, name),
                      dict(failing_input=dict(name_hex=name.hex(), name2_hex=None,
                                              what='mangle_name(%r) == fixed runtime symbol "%s" declared at %s' % (name, lit, where))), True):
            nviol += 1
    # premise "distinct functions have distinct display names": executed on programs of the real front end (sampled)
    names_info = None
    try:
        import json as _json
        nr = _names_runner()
        budget = 5000 if tier == 'quick' else 60000
        rc2, out2, err2, wall2 = common.run_cmd([nr, 'search', str(common.seed()), str(budget)], timeout=budget / 1000 + 600)
        names_info = _json.loads(out2.strip().split('\n')[-1])
        names_info['wall_s'] = round(wall2, 1)
        if names_info.get('found'):
            if rep.violation('runner:display names collide', 'premise of C19 executed on the real crates: distinct functions of a program have distinct display names',
                             dict(failing_input=dict(kind='names', text_hex=names_info['text_hex'], what=names_info.get('what'))), True):
                nviol += 1
        elif not names_info.get('programs_built'):
            rep.undecide('display-name runner built no program')
    except Exception as e:
        rep.undecide('display-name runner unavailable: %s' % str(e)[:500])
    cov['display_name_runner'] = names_info
    if max_len is not None and max_len < 39:
        if rep.violation('premise:AOT_SYMBOL_MAX_LEN', 'theorem_no_mix premise max_len >= 39 (AOT_SYMBOL_MAX_LEN = %d)' % max_len,
                      dict(note='with max_len < 39 the "_H" marker can fall inside the "dora_" prefix; a shortened symbol can then equal '
                                'the unshortened symbol of another name (max_len 38) or lose the prefix'), False):
            nviol += 1

    cov['samples'] = [
        dict(function='mangle_name', contract='ensures r@ == "dora_" ++ esc_all(name.bytes)   (all &str)'),
        dict(function='demangle_name', contract='ensures view(r) == demangle_spec(name.bytes)  (prefix check, unesc, UTF-8 validation)'),
        dict(lemma='theorem_roundtrip', statement='forall n: demangle_spec(utf8(mangle_spec(utf8(n)))) == Some(n)'),
        dict(lemma='theorem_no_mix', statement='max_len >= 39 && |mangle(bs)| > max_len ==> shorten(mangle(bs)) != mangle(other)'),
        dict(lemma='theorem_shortened_equal_only_if_hash_equal', statement='equal shortened symbols ==> equal FNV-1a-128 of the whole symbols and equal kept prefix'),
        dict(lemma='fixed_symbol_k', count=nfixed, example=sorted(usable)[0] if usable else None),
    ]
    cov['replay_runner'] = search
    cov['aot_symbol_max_len'] = max_len
    cov['not_decided'] = ['uniqueness of display names is NOT proved: display_fct is executed over every function (standard library included) of generated programs in which different functions share their simple name (sampled)',
                          'display names of instantiations (type arguments) and of trait-object thunks', 'symbols of thunks/trampolines that do not go through mangle_name '
                          '(covered only by the fixed-symbol lemmas)', 'FNV collision freedom']
    cov['undecided'] = rep.undecided
    common.write_evidence(PROP, tier, 'proof', cov, assumptions, time.time() - t0, nviol,
                          extra=dict(known_findings=rep.known))
    return rep.exit_code()


def aot_names_module():
    """aot_compiled_function_name / aot_display_name and the enum CompiledFunctionTarget of dora-compiler/src/aot_compile.rs, cut verbatim
    (pub(super) widened to pub; CompiledFunction reduced to the one field the naming reads: N8)."""
    S = Source(os.path.join(common.repo_root(), 'dora-compiler/src/aot_compile.rs'))
    out = ['#![allow(unused)]', 'use dora_bytecode::{BytecodeTypeArray, FunctionId, Program, display_fct, display_fct_specialized, display_ty};',
           'use dora_compiler::TraitObjectThunk;', '']
    out.append(S.cut_item('enum', 'CompiledFunctionTarget')['text'].replace('pub(super) enum', 'pub enum'))
    out.append('pub struct CompiledFunction { pub target: CompiledFunctionTarget }')
    out.append(S.cut_fn('aot_compiled_function_name', depth=0)['text'].replace('pub(super) fn', 'pub fn'))
    out.append(S.cut_fn('aot_display_name', depth=0)['text'])
    return '\n\n'.join(out) + '\n'


def _names_runner():
    import prop_c20
    prop_c20._link_pkgs()
    return common.build_runner('c19names', {'dora-frontend': 'dora-frontend', 'dora-bytecode': 'dora-bytecode', 'dora-compiler': 'dora-compiler'}, lock=True,
                               extra_files={'aotnames.rs': aot_names_module()})


def replay(rp):
    fi = rp.get('failing_input')
    if not fi:
        print('replay file carries no concrete input (no-failing-input-found); failed obligation: %s' % rp.get('obligation'))
        print(rp.get('verus_output', ''))
        return 1
    if fi.get('kind') == 'names':
        nr = _names_runner()
        rc, out, err, _ = common.run_cmd([nr, 'replay', fi['text_hex']])
        print(out.strip())
        return 1 if rc != 0 else 0
    aot_text, _items = extract_aot_closure()
    runner = common.build_runner('c19', {'dora-symbol': 'dora-symbol'}, lock=False, extra_files={'aot.rs': aot_text})
    rc, out, err, _ = common.run_cmd([runner, 'replay', fi['name_hex'], fi.get('name2_hex') or 'null'])
    print(out.strip())
    return 1 if rc != 0 else 0
