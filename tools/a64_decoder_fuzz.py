#!/usr/bin/env python3
"""Differential test of the a64 reference decoder against llvm-mc-14 on arbitrary words.

Words = valid encodings taken from row samples with 0..3 random bits flipped, plus uniformly random words.
For each word: mine = render(decode(w)) (standalone build of spec/a64dec.rs), llvm = disassembly (no aliases).
  * mine known, llvm invalid           -> decoder too lenient            (DEFECT)
  * both known, texts differ and the rendering does not re-assemble to w -> DEFECT
  * mine Unknown, llvm valid           -> instruction outside the modelled set; mnemonics are listed so that one
                                          can see that no offered class is among them
usage: a64_decoder_fuzz.py [--n 20000] [--seed 1]
"""
import argparse
import os
import random
import re
import subprocess
import sys

sys.path.insert(0, os.path.dirname(os.path.abspath(__file__)))
import a64_oracle_check as oc  # noqa: E402

D = '/var/tmp/verif-scratch/a64-decfuzz'
MAIN = '''#[path = "/verif/spec/a64dec.rs"]
mod a64dec;
use std::io::BufRead;
fn main() {
    let stdin = std::io::stdin();
    for ln in stdin.lock().lines() {
        let ln = ln.unwrap();
        if let Ok(w) = u32::from_str_radix(ln.trim(), 16) {
            let i = a64dec::decode(w);
            println!("{:08x} {}", w, a64dec::render(&i));
        }
    }
}
'''


def build():
    os.makedirs(D + '/src', exist_ok=True)
    open(D + '/Cargo.toml', 'w').write('[package]\nname = "decfuzz"\nversion = "0.0.0"\nedition = "2021"\n[workspace]\n'
                                      '[lints.rust]\nunexpected_cfgs = { level = "allow", check-cfg = [\'cfg(kani)\'] }\n')
    open(D + '/src/main.rs', 'w').write(MAIN)
    env = dict(os.environ, CARGO_NET_OFFLINE='true')
    p = subprocess.run(['cargo', 'build', '--release', '--offline', '-q'], cwd=D, env=env, stdout=subprocess.PIPE, stderr=subprocess.STDOUT, text=True)
    if p.returncode != 0:
        sys.exit('build failed: ' + p.stdout[-2000:])
    return D + '/target/release/decfuzz'


def main():
    ap = argparse.ArgumentParser()
    ap.add_argument('--n', type=int, default=20000)
    ap.add_argument('--seed', type=int, default=1)
    a = ap.parse_args()
    rnd = random.Random(a.seed)
    exe = build()
    # seeds: words of accepted row samples
    runner = '/var/tmp/verif-scratch/a64-oracle/target-run/release/vp_run'
    seeds = set()
    if os.path.exists(runner):
        for sd in range(1, 8):
            out = subprocess.run([runner, 'sample', 'all', str(sd), '3'], stdout=subprocess.PIPE, text=True).stdout
            for m in re.finditer(r'w=([0-9a-f,]+) asm=', out):
                seeds.update(int(x, 16) for x in m.group(1).split(','))
    seeds = sorted(seeds)
    words = set(seeds)
    while len(words) < a.n:
        if seeds and rnd.random() < 0.8:
            w = rnd.choice(seeds)
            for _ in range(rnd.randint(1, 3)):
                w ^= 1 << rnd.randrange(32)
        else:
            w = rnd.getrandbits(32)
        words.add(w)
    words = sorted(words)
    mine = {}
    out = subprocess.run([exe], input='\n'.join('%08x' % w for w in words) + '\n', stdout=subprocess.PIPE, text=True).stdout
    for ln in out.split('\n'):
        if ln:
            mine[int(ln[:8], 16)] = ln[9:]
    oc.disasm_batch(words)
    st = dict(words=len(words), both_invalid=0, text_equal=0, asm_equal=0, lenient=0, differ=0, unmodelled=0)
    unmod = {}
    for w in words:
        m = mine[w]
        l = oc.DIS_CACHE.get(w)
        if m == '<unknown>':
            if l is None:
                st['both_invalid'] += 1
            else:
                st['unmodelled'] += 1
                mn = l.split()[0]
                unmod[mn] = unmod.get(mn, 0) + 1
            continue
        if l is None:
            st['lenient'] += 1
            print('LENIENT %08x mine="%s" llvm=invalid' % (w, m))
            continue
        if oc.norm(l) == oc.norm(m):
            st['text_equal'] += 1
            continue
        enc, err = oc.assemble(m)
        if enc == w:
            st['asm_equal'] += 1
            continue
        st['differ'] += 1
        print('DIFFER %08x mine="%s" llvm="%s" reassembled=%s %s' % (w, m, l, ('%08x' % enc) if enc is not None else None, err))
    print(st)
    print('unmodelled mnemonics (llvm valid, decoder Unknown):', ' '.join('%s:%d' % kv for kv in sorted(unmod.items())))
    return 1 if (st['lenient'] or st['differ']) else 0


if __name__ == '__main__':
    sys.exit(main())
