"""C10 — clause: the code ranges registered with the runtime are disjoint, so every address resolves to exactly one function."""
import json
import os
import re
import shutil

import common
import kprop
import kx
import vx
import prop_asm

PROP = 'C10'


def _row_filter(unit, tier):
    rows = kx.row_names(os.path.join(common.VERIF, kx.UNITS[unit]['rows']))
    return set(r for r in rows if not r.endswith('__concrete_only'))


def _concrete_codemap_search(budget_cases):
    """Run the concrete-only CodeMap row on seeded operands against the code cut from the working tree."""
    d = common.scratch('kx-c10-concrete')
    try:
        kx.gen_crate('c10', d)
        runner = kx.build_runner(d)
        rc, out, err, wall = common.run_cmd([runner, 'sample', 'codemap_model__concrete_only', str(common.seed()), str(budget_cases)], timeout=600)
        m = re.search(r'VIOLATED codemap_model__concrete_only operands=\[([0-9, ]*)\]', out)
        held = re.search(r'ROW codemap_model__concrete_only held=(\d+)', out)
        if m:
            ops = [int(x) for x in m.group(1).replace(' ', '').split(',') if x]
            return dict(found=True, operands=ops, wall_s=round(wall, 2)), out[-1500:]
        return dict(found=False, cases=int(held.group(1)) if held else 0, wall_s=round(wall, 2)), ''
    finally:
        shutil.rmtree(d, ignore_errors=True)


def _verus_codemap(rep, cov):
    """CodeMap::{new, insert, get} under Verus contracts (BTreeMap semantics assumed, CodeSpan laws from the Kani rows)."""
    nviol = 0
    workdir = common.ensure_dir(os.path.join(common.BUILD, 'vx'))
    res = None
    try:
        res = vx.verify_unit(os.path.join(common.VERIF, 'contracts', 'c10_codemap.vspec'), workdir)
    except vx.Undecided as e:
        rep.undecide(str(e))
    search = None
    try:
        search, tail = _concrete_codemap_search(3000)
    except Exception as e:
        rep.undecide('concrete CodeMap search unavailable: %s' % str(e)[:400])
    found = bool(search and search.get('found'))
    fi = dict(unit='c10', row='codemap_model__concrete_only', operands=search['operands']) if found else None
    if res is not None:
        cov['obligations'] += res['obligations']
        cov['checker_cmd'] += ' ; ' + res['cmd']
        cov['trusted_base'] += ['[%s] %s' % (res['unit'], t) for t in res['trusted']]
        cov['units'].append(dict(unit=res['unit'], verus=res['stats'], wall_s=res['wall_s'], reach=res['reach'],
                                 functions_under_contract=res['functions_under_contract'], rewrites_applied=res['rewrites_applied'], sources=res['sources']))
        cov['functions_under_contract'] += ['%s::%s' % (res['unit'], f) for f in res['functions_under_contract']]
        seen = set()
        for f in res['failures']:
            if f['obligation'] in seen:
                continue
            seen.add(f['obligation'])
            payload = dict(unit=res['unit'], function=f['function'], kind=f['kind'], clause=f['clause'], verus_output=f['verus_output'])
            if fi:
                payload['failing_input'] = fi
            if rep.violation('verus:%s:%s:%s' % (res['unit'], f['function'], f['kind']), f['obligation'], payload, found):
                nviol += 1
        cov['discharged'] += res['obligations'] - len(seen)
    if found and not (res and res['failures']):
        if rep.violation('concrete:codemap_model', 'CodeMap::get resolves every address to the unique registered range containing it (concrete model check on the cut code)',
                      dict(failing_input=fi), True):
            nviol += 1
    cov['codemap_concrete_search'] = search
    return nviol


def run(tier):
    assumptions = [
        "std's BTreeMap<CodeSpan, CodeId> behaves as a map on the equivalence 'overlaps' when Ord is a strict total order on the stored keys and the query is ordered consistently "
        "(ASSUMED contract vx_tree_insert / vx_tree_get in c10_codemap.vspec; driving BTreeMap under CBMC exhausts memory even for two entries). "
        "CodeMap::{new, insert, get} are proved against it in Verus; the CodeSpan order laws it rests on are proved by the Kani rows on the same source text; "
        "a concrete model check of the real CodeMap (seeded ranges, every address) cross-checks the assumption",
        'CodeMap::insert panics (assert!(..is_none())) AFTER BTreeMap::insert replaced the value of the overlapping key: refusal by panic is accepted',
        'Code (never touched by the extracted items) replaced by an opaque unit struct; visibility of the cut items widened to `pub` so that the rows can call them',
    ]
    samples = [
        dict(row='intersect_is_overlap', contract='for all usize bounds: intersect(a,b) <=> max(starts) < min(ends); symmetric; == is intersection'),
        dict(row='cmp_laws', contract='cmp == Equal <=> overlap; disjoint: Less <=> a entirely before b; cmp(b,a) == reverse(cmp(a,b)); partial_cmp agrees'),
        dict(row='cmp_transitive_on_disjoint', contract='Less / Greater transitive on pairwise disjoint spans (strict total order)'),
        dict(row='point_query_order', contract='CodeSpan(p, p+1) is Equal to exactly the span containing p and ordered correctly against every other span'),
        dict(row='span_new_refuses_empty', contract='CodeSpan::new returns only if start < end'),
    ]
    assumptions.append('GcPointTable / LocationTable (c10_tables.vspec): `binary_search_by_key` through a closure is wrapped with an ASSUMED std contract; the ordering precondition of insert '
                       '(debug_assert!(offset > last.0): offsets strictly increasing) is the CALLER\'s obligation and is not proved for the code generators')
    samples.append(dict(function='GcPointTable::get', contract='requires offsets strictly increasing; ensures Some(map of exactly that return offset) or None iff no entry has that offset'))
    samples.append(dict(function='LocationTable::insert', contract='requires ordered && offset > last; ensures entries == old.push(..) && ordered (source-position tables stay ordered)'))
    not_decided = ['presence and shape of stack maps (gc points) at every call site / safepoint in emitted code',
                   'slot ranges inside frames, `.s` metadata, arm64, the optimizing generator',
                   'that the code generators call GcPointTable/LocationTable::insert with increasing offsets and positions inside the function',
                   'BTreeMap itself (assumed)']

    def steps(rep, cov):
        n = _verus_codemap(rep, cov) or 0
        n += prop_asm.verus_unit_step('c10_tables.vspec')(rep, cov) or 0
        # the same contract executed on the real dora-compiler (concrete witness when the proof fails or is undecided; sampled)
        try:
            rb = common.build_runner('c10tables', {'dora-compiler': 'dora-compiler', 'dora-bytecode': 'dora-bytecode'}, lock=True)
            budget = 2000 if tier == 'quick' else 30000
            rc, out, err, wall = common.run_cmd([rb, 'search', str(common.seed()), str(budget)], timeout=600)
            info = json.loads(out.strip().split('\n')[-1])
            cov['tables_runner'] = info
            if info.get('found'):
                if rep.violation('runner:tables', 'executable form of the GcPointTable / LocationTable contract on the real dora-compiler',
                                 dict(failing_input=dict(kind='tables', seed=info['seed'], iter=info['iter'], what=info.get('what'))), True):
                    n += 1
        except Exception as e:
            rep.undecide('tables runner unavailable: %s' % str(e)[:400])
        return n
    return kprop.run_kani_property(PROP, tier, ['c10'], assumptions=assumptions, samples=samples, not_decided=not_decided,
                                   row_filter=_row_filter, extra_steps=steps)


def replay(rp):
    fi = rp.get('failing_input') or {}
    if fi.get('kind') == 'tables':
        rb = common.build_runner('c10tables', {'dora-compiler': 'dora-compiler', 'dora-bytecode': 'dora-bytecode'}, lock=True)
        rc, out, err, _ = common.run_cmd([rb, 'replay', str(fi['seed']), str(fi['iter'])])
        print(out.strip())
        return 1 if rc != 0 else 0
    return kprop.replay_row(rp)
