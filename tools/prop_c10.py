"""C10 — clause: the code ranges registered with the runtime are disjoint, so every address resolves to exactly one function."""
import kprop

PROP = 'C10'


def run(tier):
    assumptions = [
        "std's BTreeMap<CodeSpan, CodeId> behaves as a map when Ord is a strict total order on the stored keys and the query is ordered consistently "
        "(assumed contract on std; driving BTreeMap under CBMC exhausts memory even for two entries, so CodeMap::{insert,get} are not composed here)",
        'CodeMap::insert panics (assert!(..is_none())) AFTER BTreeMap::insert replaced the value of the overlapping key: refusal by panic is accepted',
        'Code (never touched by the extracted items) replaced by an opaque unit struct; visibility of the cut items widened to `pub` so that the rows can call them',
    ]
    samples = [
        dict(row='intersect_is_overlap', contract='for all usize bounds: intersect(a,b) <=> max(starts) < min(ends); symmetric; == is intersection'),
        dict(row='cmp_laws', contract='cmp == Equal <=> overlap; disjoint: Less <=> a entirely before b; cmp(b,a) == reverse(cmp(a,b)); partial_cmp agrees'),
        dict(row='cmp_transitive_on_disjoint', contract='Less / Greater transitive on pairwise disjoint spans (strict total order)'),
        dict(row='point_query_order', contract='CodeSpan(p, p+1) is Equal to exactly the span containing p and ordered correctly against every other span'),
        dict(row='span_new_refuses_empty', contract='CodeSpan::new returns only if start < end'),
    ]
    not_decided = ['presence and shape of stack maps (gc points) at every call site / safepoint in emitted code',
                   'slot ranges inside frames, `.s` metadata, arm64, the optimizing generator',
                   'GcPointTable / LocationTable::get (exact-offset binary search through a closure: outside both verifiers without wrapping the comparison itself)',
                   'composition through BTreeMap (assumed)']
    return kprop.run_kani_property(PROP, tier, ['c10'], assumptions=assumptions, samples=samples, not_decided=not_decided)


def replay(rp):
    return kprop.replay_row(rp)
