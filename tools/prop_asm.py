"""Shared driver for C07 (x86-64) and C08 (AArch64): every public instruction method of the real assembler
has a contract row (contracts/<arch>_requests.rs) run as a loop-free full-domain Kani proof against the
reference decoder (spec/<arch>dec.rs)."""
import os
import re

import common
import kprop
import kx


def not_instruction_methods(rows_path):
    text = open(rows_path, encoding='utf-8').read()
    m = re.search(r'NOT_INSTRUCTION_METHODS\s*:\s*&\[&str\]\s*=\s*&\[(.*?)\];', text, re.S)
    names = re.findall(r'"([A-Za-z_0-9]+)"', m.group(1)) if m else []
    m = re.search(r'NOT_COVERED\s*:\s*&\[\(&str,\s*&str\)\]\s*=\s*&\[(.*?)\];', text, re.S)
    nc = re.findall(r'\(\s*"([A-Za-z_0-9]+)"\s*,\s*"([^"]*)"\s*\)', m.group(1)) if m else []
    return names, nc


def make_method_check(unit):
    def chk(rows):
        u = kx.UNITS[unit]
        pub = kx.public_methods(unit)
        non_inst, not_cov = not_instruction_methods(os.path.join(common.VERIF, u['rows']))
        covered = set(r.split('__')[0] for r in rows)
        listed = set(non_inst) | set(n for n, _ in not_cov)
        missing = [m for m in pub if m not in covered and m not in listed]
        extra = sorted(c for c in covered if c not in pub)
        return missing, extra
    return chk


def run(prop, unit, tier, assumptions, samples, not_decided, slow_rows=()):
    u = kx.UNITS[unit]
    _non, not_cov = not_instruction_methods(os.path.join(common.VERIF, u['rows']))

    def row_filter(unit_name, t):
        if t == 'thorough':
            return None
        rows = kx.row_names(os.path.join(common.VERIF, u['rows']))
        return set(r for r in rows if r not in slow_rows)
    return kprop.run_kani_property(prop, tier, [unit], assumptions=assumptions, samples=samples, not_decided=not_decided,
                                   row_filter=row_filter, not_covered=['%s: %s' % nc for nc in not_cov],
                                   method_check={unit: make_method_check(unit)},
                                   extra_cov=dict(slow_rows_only_in_thorough=sorted(slow_rows)))
