"""Shared driver for C07 (x86-64) and C08 (AArch64): every public instruction method of the real assembler
has a contract row (contracts/<arch>_requests.rs) run as a loop-free full-domain Kani proof against the
reference decoder (spec/<arch>dec.rs)."""
import os
import re

import common
import kprop
import kx


def not_instruction_methods(rows_path):
    text = open(rows_path, encoding='utf-8').read()
    m = re.search(r'NOT_INSTRUCTION_METHODS\s*:\s*&\[&str\]\s*=\s*&\[(.*?)\];', text, re.S)
    names = re.findall(r'"([A-Za-z_0-9]+)"', m.group(1)) if m else []
    m = re.search(r'NOT_COVERED\s*:\s*&\[\(&str,\s*&str\)\]\s*=\s*&\[(.*?)\];', text, re.S)
    nc = re.findall(r'\(\s*"([A-Za-z_0-9]+)"\s*,\s*"([^"]*)"\s*\)', m.group(1)) if m else []
    return names, nc


def slow_rows(rows_path):
    text = open(rows_path, encoding='utf-8').read()
    m = re.search(r'SLOW_ROWS\s*:\s*&\[&str\]\s*=\s*&\[(.*?)\];', text, re.S)
    return set(re.findall(r'"([A-Za-z_0-9]+)"', m.group(1))) if m else set()


def make_method_check(unit):
    def chk(rows):
        u = kx.UNITS[unit]
        pub = kx.public_methods(unit)
        non_inst, not_cov = not_instruction_methods(os.path.join(common.VERIF, u['rows']))
        # every row of the table counts (rows left to the thorough tier are reported separately)
        covered = set(r.split('__')[0] for r in kx.row_names(os.path.join(common.VERIF, u['rows'])))
        listed = set(non_inst) | set(n for n, _ in not_cov)
        missing = [m for m in pub if m not in covered and m not in listed]
        extra = sorted(c for c in covered if c not in pub)
        return missing, extra
    return chk


def verus_unit_step(vspec_name):
    """extra step: a Verus unit that belongs to the same property (e.g. label arithmetic, unbounded distances)."""
    import vx

    def step(rep, cov):
        nviol = 0
        workdir = common.ensure_dir(os.path.join(common.BUILD, 'vx'))
        try:
            res = vx.verify_unit(os.path.join(common.VERIF, 'contracts', vspec_name), workdir)
        except vx.Undecided as e:
            rep.undecide(str(e))
            return 0
        cov['obligations'] += res['obligations']
        cov['checker_cmd'] += ' ; ' + res['cmd']
        cov['trusted_base'] += ['[%s] %s' % (res['unit'], t) for t in res['trusted']]
        cov['units'].append(dict(unit=res['unit'], verus=res['stats'], wall_s=res['wall_s'], reach=res['reach'],
                                 functions_under_contract=res['functions_under_contract'], rewrites_applied=res['rewrites_applied'], sources=res['sources']))
        cov['functions_under_contract'] += ['%s::%s' % (res['unit'], f) for f in res['functions_under_contract']]
        seen = set()
        for f in res['failures']:
            if f['obligation'] in seen:
                continue
            seen.add(f['obligation'])
            if rep.violation('verus:%s:%s:%s' % (res['unit'], f['function'], f['kind']), f['obligation'],
                          dict(unit=res['unit'], function=f['function'], kind=f['kind'], clause=f['clause'], verus_output=f['verus_output'],
                               note='label arithmetic is decided by Verus (unbounded distances); the bounded label rows of the thorough tier give concrete counterexamples'), False):
                nviol += 1
        cov['discharged'] += res['obligations'] - len(seen)
        return nviol
    return step


def run(prop, unit, tier, assumptions, samples, not_decided, slow=(), extra_units=(), extra_steps=None, quick_skip=None):
    u = kx.UNITS[unit]
    _non, not_cov = not_instruction_methods(os.path.join(common.VERIF, u['rows']))
    slow_set = set(slow) | slow_rows(os.path.join(common.VERIF, u['rows']))

    def row_filter(unit_name, t):
        if t == 'thorough' or unit_name != unit:
            return None
        rows = kx.row_names(os.path.join(common.VERIF, u['rows']))
        return set(r for r in rows if r not in slow_set and not (quick_skip and quick_skip(r)))
    return kprop.run_kani_property(prop, tier, [unit] + list(extra_units), assumptions=assumptions, samples=samples, not_decided=not_decided,
                                   row_filter=row_filter, not_covered=['%s: %s' % nc for nc in not_cov],
                                   method_check={unit: make_method_check(unit)}, extra_steps=extra_steps,
                                   jobs=(4 if tier == 'thorough' else 14),
                                   extra_cov=dict(slow_rows_only_in_thorough=sorted(slow_set)))
