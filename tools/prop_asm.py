"""Shared driver for C07 (x86-64) and C08 (AArch64): every public instruction method of the real assembler
has a contract row (contracts/<arch>_requests.rs) run as a loop-free full-domain Kani proof against the
reference decoder (spec/<arch>dec.rs)."""
import os
import re

import common
import kprop
import kx


def not_instruction_methods(rows_path):
    text = open(rows_path, encoding='utf-8').read()
    m = re.search(r'NOT_INSTRUCTION_METHODS\s*:\s*&\[&str\]\s*=\s*&\[(.*?)\];', text, re.S)
    names = re.findall(r'"([A-Za-z_0-9]+)"', m.group(1)) if m else []
    m = re.search(r'NOT_COVERED\s*:\s*&\[\(&str,\s*&str\)\]\s*=\s*&\[(.*?)\];', text, re.S)
    nc = re.findall(r'\(\s*"([A-Za-z_0-9]+)"\s*,\s*"([^"]*)"\s*\)', m.group(1)) if m else []
    return names, nc


def slow_rows(rows_path):
    text = open(rows_path, encoding='utf-8').read()
    m = re.search(r'SLOW_ROWS\s*:\s*&\[&str\]\s*=\s*&\[(.*?)\];', text, re.S)
    return set(re.findall(r'"([A-Za-z_0-9]+)"', m.group(1))) if m else set()


def make_method_check(unit):
    def chk(rows):
        u = kx.UNITS[unit]
        pub = kx.public_methods(unit)
        non_inst, not_cov = not_instruction_methods(os.path.join(common.VERIF, u['rows']))
        # every row of the table counts (rows left to the thorough tier are reported separately)
        covered = set(r.split('__')[0] for r in kx.row_names(os.path.join(common.VERIF, u['rows'])))
        listed = set(non_inst) | set(n for n, _ in not_cov)
        missing = [m for m in pub if m not in covered and m not in listed]
        extra = sorted(c for c in covered if c not in pub)
        return missing, extra
    return chk


def verus_unit_step(vspec_name):
    """extra step: a Verus unit that belongs to the same property (e.g. label arithmetic, unbounded distances)."""
    import vx

    def step(rep, cov):
        nviol = 0
        workdir = common.ensure_dir(os.path.join(common.BUILD, 'vx'))
        try:
            res = vx.verify_unit(os.path.join(common.VERIF, 'contracts', vspec_name), workdir)
        except vx.Undecided as e:
            rep.undecide(str(e))
            return 0
        cov['obligations'] += res['obligations']
        cov['checker_cmd'] += ' ; ' + res['cmd']
        cov['trusted_base'] += ['[%s] %s' % (res['unit'], t) for t in res['trusted']]
        cov['units'].append(dict(unit=res['unit'], verus=res['stats'], wall_s=res['wall_s'], reach=res['reach'],
                                 functions_under_contract=res['functions_under_contract'], rewrites_applied=res['rewrites_applied'], sources=res['sources']))
        cov['functions_under_contract'] += ['%s::%s' % (res['unit'], f) for f in res['functions_under_contract']]
        seen = set()
        for f in res['failures']:
            if f['obligation'] in seen:
                continue
            seen.add(f['obligation'])
            if rep.violation('verus:%s:%s:%s' % (res['unit'], f['function'], f['kind']), f['obligation'],
                          dict(unit=res['unit'], function=f['function'], kind=f['kind'], clause=f['clause'], verus_output=f['verus_output'],
                               note='label arithmetic is decided by Verus (unbounded distances); the bounded label rows of the thorough tier give concrete counterexamples'), False):
                nviol += 1
        cov['discharged'] += res['obligations'] - len(seen)
        return nviol
    return step


def sampled_stand_in_step(unit, rows_of, n_per_row=20000, far_n=40):
    """quick tier only: the rows whose full-domain proof is left to the thorough tier are EXECUTED on the real crate with seeded
    random operands (boundary-biased Src::random). This is a sampled stand-in, labelled as such: it adds nothing to
    obligations/discharged; a failing sample is a violation with a concrete input (same key as the row's proof)."""
    import shutil
    import ast

    def step(rep, cov):
        rows = sorted(rows_of())
        info = dict(kind='sampled (NOT proved): rows whose full-domain proof runs in the thorough tier only, and the executed-only `__sweep` rows (jump distances; their unbounded statement is proved by the Verus unit)', rows=len(rows),
                    samples_per_row=n_per_row, seed=common.seed(), held=0, refused=0, violated=[])
        cov['sampled_stand_in'] = info
        if not rows:
            return 0
        d = common.scratch('kx-sample-' + unit)
        nviol = 0
        try:
            kx.gen_crate(unit, d)
            runner = kx.build_runner(d)
            for r in rows:
                n = far_n if r.endswith(('__far', '__bound')) else n_per_row
                rc, out, err, _ = common.run_cmd([runner, 'sample', r, str(common.seed()), str(n)], timeout=600)
                m = re.search(r'^ROW \S+ held=(\d+) refused=(\d+) skipped=(\d+)', out, re.M)
                if m:
                    info['held'] += int(m.group(1))
                    info['refused'] += int(m.group(2))
                v = re.search(r'^VIOLATED (\S+) operands=(\[[^\]]*\]) (.*)$', out, re.M)
                if v:
                    ops = ast.literal_eval(v.group(2))
                    info['violated'].append(r)
                    payload = dict(unit=unit, row=r, failed_clauses=[v.group(3)[:600]],
                                   failing_input=dict(unit=unit, row=r, operands=ops, replay_output=v.group(3)[:1500]),
                                   note='found by the sampled stand-in of the quick tier (concrete execution of the row on the real crate)')
                    if rep.violation('kani:%s:%s' % (unit, r), '%s :: %s :: %s' % (unit, r, v.group(3)[:200]), payload, True):
                        nviol += 1
                elif rc not in (0, 1) or not m:
                    rep.undecide('[%s] sampled stand-in of row %s did not run: %s' % (unit, r, (out + err)[-300:]))
        except kx.Undecided as e:
            rep.undecide('[%s] sampled stand-in unavailable: %s' % (unit, str(e)[:600]))
        finally:
            shutil.rmtree(d, ignore_errors=True)
        return nviol
    return step


def run(prop, unit, tier, assumptions, samples, not_decided, slow=(), extra_units=(), extra_steps=None, quick_skip=None, slow_jobs=3, quick_share=1):
    u = kx.UNITS[unit]
    _non, not_cov = not_instruction_methods(os.path.join(common.VERIF, u['rows']))
    slow_set = set(slow) | slow_rows(os.path.join(common.VERIF, u['rows']))

    def row_filter(unit_name, t):
        if unit_name != unit:
            return None
        rows = kx.row_names(os.path.join(common.VERIF, u['rows']))
        if t == 'thorough':
            # `__sweep` rows are executed only (symbolic filler counts are out of CBMC's reach; the unbounded statement is the Verus unit's).
            # two passes: the quick-tier rows at full parallelism, then the slow / memory-hungry rows a few at a time (10-20 GB each)
            allr = [r for r in rows if not r.endswith('_sweep')]
            fast = set(r for r in allr if r not in slow_set and not (quick_skip and quick_skip(r)))
            slow_ = set(allr) - fast
            return [dict(only=fast, jobs=14, timeout=7200), dict(only=slow_, jobs=slow_jobs, timeout=6 * 3600)]
        fast = [r for r in rows if r not in slow_set and not r.endswith('_sweep') and not (quick_skip and quick_skip(r))]
        # The quick tier must finish well inside 15 minutes, and the cost is per harness (build + goto-instrument, 3-5 s each, on top of
        # the solver): it PROVES every quick_share-th cheap row - which ones rotates with VERIF_SEED, so that successive runs cover all of
        # them - and EXECUTES all the others with seeded operands (sampled stand-in below). The thorough tier proves every row.
        if quick_share > 1:
            k = common.seed() % quick_share
            fast = [r for i, r in enumerate(fast) if i % quick_share == k]
        return set(fast)
    steps = [extra_steps] if extra_steps else []

    def skipped_rows():
        rows = kx.row_names(os.path.join(common.VERIF, u['rows']))
        f = row_filter(unit, tier)
        if isinstance(f, list):
            f = set().union(*[ps['only'] for ps in f])
        return [r for r in rows if r not in f]
    steps.append(sampled_stand_in_step(unit, skipped_rows))

    def all_steps(rep, cov):
        return sum((st(rep, cov) or 0) for st in steps)
    if os.environ.get('VERIF_SKIP_KANI') == '1':
        # self-test mode only (tools/selftest.py on mutants of the label / jump code): no Kani rows, every row is executed (sampled) instead
        def skipped_rows():  # noqa: F811
            return kx.row_names(os.path.join(common.VERIF, u['rows']))
        steps[-1] = sampled_stand_in_step(unit, skipped_rows)
        return kprop.run_kani_property(prop, tier, [], assumptions=list(assumptions) + ['VERIF_SKIP_KANI=1 (self-test mode): Kani rows NOT run; all rows executed with seeded operands instead'],
                                       samples=samples, not_decided=not_decided, extra_steps=all_steps)
    return kprop.run_kani_property(prop, tier, [unit] + list(extra_units), assumptions=assumptions, samples=samples, not_decided=not_decided,
                                   row_filter=row_filter, not_covered=['%s: %s' % nc for nc in not_cov],
                                   method_check={unit: make_method_check(unit)}, extra_steps=all_steps,
                                   jobs=(4 if tier == 'thorough' else 14),
                                   extra_cov=dict(slow_rows_only_in_thorough=sorted(slow_set), quick_tier_proves_every_nth_cheap_row=quick_share))
