#!/usr/bin/env python3
"""check — driver: `check <ID> [quick|thorough]`, `check replay <file>`.

exit 0  property held on everything explored (KNOWN-FINDING lines allowed)
exit 1  + `VIOLATION property=<id> replay=<path>[ no-failing-input-found]`
exit 2  undecided (tool limit, lost anchor, unsupported construct) — never an alarm
"""
import json
import os
import sys
import time
import importlib

sys.path.insert(0, os.path.dirname(os.path.abspath(__file__)))
import common  # noqa: E402

PROPS = ['C07', 'C08', 'C09', 'C10', 'C16', 'C18', 'C19', 'C20']


def main():
    if len(sys.argv) < 2:
        print(__doc__)
        return 2
    if sys.argv[1] == 'replay':
        path = sys.argv[2]
        with open(path) as f:
            rp = json.load(f)
        mod = importlib.import_module('prop_' + rp['property'].lower())
        return mod.replay(rp)
    prop = sys.argv[1].upper()
    tier = sys.argv[2] if len(sys.argv) > 2 else os.environ.get('VERIF_TIER', 'quick')
    if tier not in ('quick', 'thorough'):
        tier = 'quick'
    mod = importlib.import_module('prop_' + prop.lower())
    # remove stale replay files of this property
    rd = os.path.join(common.out_root(), 'replay')
    if os.path.isdir(rd):
        for fn in os.listdir(rd):
            if fn.startswith(prop + '-'):
                os.remove(os.path.join(rd, fn))
    t0 = time.time()
    rc = mod.run(tier)
    sys.stderr.write('[check] %s %s: exit %d in %.1fs\n' % (prop, tier, rc, time.time() - t0))
    return rc


if __name__ == '__main__':
    sys.exit(main())
