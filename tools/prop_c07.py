"""C07 — every x86-64 instruction is encoded as the instruction that was requested."""
import kprop
import prop_asm

PROP = 'C07'
# address rows that take more than ~2 minutes of CBMC time each (measured on this machine, up to 15 GB): thorough tier only.
# The 64-bit address rows (35-100 s) stay in the quick tier and exercise Address::{reg,offset,index,array,rip} + emit_address completely.
SLOW_ROWS = ('testl_ai', 'cmpl_ai', 'movsd_ar', 'cmpxchgl_ar', 'movzxb_ra', 'movb_ai', 'vandpd_ra', 'xaddl_ar', 'lock_cmpxchgl_ar', 'andps_ra',
             'movsd_ra', 'movaps_ar', 'movss_ar', 'testb_ai', 'movl_ar', 'movl_ai', 'movb_ra', 'cmpb_ai', 'movups_ar', 'vandps_ra', 'movss_ra',
             'movsxbl_ra', 'xchgb_ar', 'lock_xaddl_ar', 'xorpd_ra', 'testl_ar', 'cmpl_ar', 'vmovsd_ar', 'xorps_ra', 'vmovss_ra', 'vmovsd_ra',
             'vxorps_ra', 'vmovss_ar', 'vxorpd_ra', 'cmpb_ar', 'movl_ra', 'movb_ar', 'cmpq_ai', 'xchgl_ar')


def run(tier):
    assumptions = [
        'the reference decoder spec/x64dec.rs (written from the Intel SDM vol. 2) and the request in each row are the oracle; both are cross-checked against llvm-mc 14 by tools/x64_oracle_check.py on seeded samples (validation, not proof)',
        'a panic inside the assembler is a refusal, which the property allows for operands outside the legal range',
        'XMM register numbers are < 16 (XmmRegister::new does not check; outside the property quantifier)',
        'Kani compiles with overflow checks: release-build wrap-around on such operands is listed, not proved',
        'label rows use a bounded distance (stated per row)',
        'pkgs/boots/assembler/x64.dora and the callers in masm/x64.rs / trampolines are outside this technique',
    ]
    samples = [
        dict(row='addq_rr', contract='for dest, src in all 16 GPRs: bytes decode to exactly one instruction ADD r/m64 with the requested operands'),
    ]
    not_decided = ['the Dora-side assembler', 'label distances beyond the bound']
    # quick tier: label rows (bounded distance) are left to the thorough tier; jumps to labels are decided for ALL distances by the
    # Verus unit c07_jumps (jmp / jcc / jmp_near / jcc_near / resolve_jumps)
    is_label_row = lambda r: r.endswith(('__fwd', '__bwd'))
    return prop_asm.run(PROP, 'x64', tier, assumptions, samples, not_decided, slow=SLOW_ROWS,
                        extra_steps=prop_asm.verus_unit_step('c07_jumps.vspec'), quick_skip=is_label_row, slow_jobs=5, quick_share=2)


def replay(rp):
    return kprop.replay_row(rp)
