"""C07 — every x86-64 instruction is encoded as the instruction that was requested."""
import kprop
import prop_asm

PROP = 'C07'
SLOW_ROWS = ()


def run(tier):
    assumptions = [
        'the reference decoder spec/x64dec.rs (written from the Intel SDM vol. 2) and the request in each row are the oracle; both are cross-checked against llvm-mc 14 by tools/x64_oracle_check.py on seeded samples (validation, not proof)',
        'a panic inside the assembler is a refusal, which the property allows for operands outside the legal range',
        'XMM register numbers are < 16 (XmmRegister::new does not check; outside the property quantifier)',
        'Kani compiles with overflow checks: release-build wrap-around on such operands is listed, not proved',
        'label rows use a bounded distance (stated per row)',
        'pkgs/boots/assembler/x64.dora and the callers in masm/x64.rs / trampolines are outside this technique',
    ]
    samples = [
        dict(row='addq_rr', contract='for dest, src in all 16 GPRs: bytes decode to exactly one instruction ADD r/m64 with the requested operands'),
    ]
    not_decided = ['the Dora-side assembler', 'label distances beyond the bound']
    return prop_asm.run(PROP, 'x64', tier, assumptions, samples, not_decided, slow=SLOW_ROWS)


def replay(rp):
    return kprop.replay_row(rp)
