"""C08 — every AArch64 instruction is encoded as the instruction that was requested."""
import kprop
import prop_asm

PROP = 'C08'
SLOW_ROWS = ()


def run(tier):
    assumptions = [
        'the reference decoder spec/a64dec.rs (written from the Arm ARM encoding tables) and the request in each row are the oracle; both are cross-checked against llvm-mc 14 by tools/a64_oracle_check.py on seeded samples (validation, not proof)',
        'a panic inside the assembler (assert!/expect/unreachable) is a refusal, which the property allows for operands that cannot be encoded',
        'Kani compiles with overflow checks: operands on which a release build would wrap instead of panic are listed under release_wraparound_undecided, not proved',
        'label rows bind labels at most a few instructions away (bounded distance; stated per row); the range checks of the branch-offset fields are covered for ALL i32 offsets by the *_imm rows',
        'pkgs/boots/assembler/arm64.dora (the Dora assembler) and the callers in masm/arm64.rs are outside this technique',
    ]
    samples = [
        dict(row='add_imm', contract='for rd, rn in {x0..x30, zr, sp}, imm: any u32: returned ==> word decodes to ADD (immediate) 64-bit with exactly rd, rn, imm; zr is refused; unencodable imm is refused'),
    ]
    not_decided = ['the Dora-side assembler', 'far-branch fallback sequences beyond the bounded label distance']
    # quick tier: label rows (bounded distance, 1-4 min each) are left to the thorough tier; the label arithmetic itself is
    # decided for ALL distances by the Verus unit c08_labels, over the class-encoder contracts proved by the a64p rows
    is_label_row = lambda r: r.endswith(('__fwd', '__bwd', '__far', '__bound'))
    return prop_asm.run(PROP, 'a64', tier, assumptions, samples, not_decided, slow=SLOW_ROWS, extra_units=['a64p'],
                        extra_steps=prop_asm.verus_unit_step('c08_labels.vspec'), quick_skip=is_label_row, quick_share=3)


def replay(rp):
    return kprop.replay_row(rp)
