#!/usr/bin/env python3
"""selftest — seeded single-site mutations applied to a scratch worktree of /repo
(VERIF_REPO=<scratch>); each must make the named check exit 1 (mutant) or 0 (benign edit).
Not one of the registered checks; it tests the machinery.

usage: selftest.py [PROP ...]      (mutations are in tools/mutations/<PROP>.json)
"""
import json
import os
import subprocess
import sys
import shutil

V = os.path.dirname(os.path.dirname(os.path.abspath(__file__)))
WT = '/var/tmp/verif-selftest-wt-%d' % os.getpid()


def sh(cmd, **kw):
    return subprocess.run(cmd, shell=True, stdout=subprocess.PIPE, stderr=subprocess.STDOUT, text=True, **kw)


def main():
    props = [a for a in sys.argv[1:] if not a.startswith('-')]
    only = None
    for a in sys.argv[1:]:
        if a.startswith('--only='):
            only = a[7:]
    if os.path.exists(WT):
        sh('git -C /repo worktree remove --force %s' % WT)
        shutil.rmtree(WT, ignore_errors=True)
    r = sh('git -C /repo worktree add --detach %s HEAD' % WT)
    if r.returncode != 0:
        print(r.stdout)
        return 2
    bad = 0
    try:
        for prop in props:
            muts = json.load(open(os.path.join(V, 'tools', 'mutations', prop + '.json')))
            for m in muts:
                if only and m['name'] != only:
                    continue
                sh('git -C %s checkout -- .' % WT)
                path = os.path.join(WT, m['file'])
                text = open(path, encoding='utf-8').read()
                if text.count(m['old']) < 1:
                    print('%-4s %-40s SKIP (pattern not found)' % (prop, m['name']))
                    bad += 1
                    continue
                text = text.replace(m['old'], m['new'], 1)
                open(path, 'w', encoding='utf-8').write(text)
                env = dict(os.environ, VERIF_REPO=WT, VERIF_OUT='/var/tmp/verif-selftest-out')
                r = subprocess.run([os.path.join(V, 'bin', 'check'), prop, 'quick'], env=env, stdout=subprocess.PIPE,
                                   stderr=subprocess.PIPE, text=True, cwd=V)
                want = m.get('expect', 1)
                ok = (r.returncode == want)
                lines = [l for l in r.stdout.split('\n') if l.startswith('VIOLATION') or l.startswith('KNOWN')]
                und = [l for l in r.stderr.split('\n') if l.startswith('UNDECIDED')]
                print('%-4s %-40s %s exit=%d want=%d  %s %s' % (prop, m['name'], 'ok  ' if ok else 'MISS', r.returncode, want,
                                                                 '; '.join(l.split('replay=')[-1] for l in lines)[:150], '; '.join(und)[:200]))
                sys.stdout.flush()
                if not ok:
                    bad += 1
    finally:
        sh('git -C /repo worktree remove --force %s' % WT)
        shutil.rmtree(WT, ignore_errors=True)
        # the private build cache of this worktree (common.BUILD for VERIF_REPO=WT)
        import re as _re
        shutil.rmtree(os.path.join(V, '.build', 'alt', _re.sub(r'[^A-Za-z0-9]+', '_', WT).strip('_')), ignore_errors=True)
    # restore evidence of the real tree
    return 1 if bad else 0


if __name__ == '__main__':
    sys.exit(main())
