#!/usr/bin/env python3
"""Run contract rows of a unit in batches through kx (no playback) and log per-row outcomes.
usage: a64_runall.py [--unit a64] [--batch 30] [-j 8] [--only a,b,c | --from name | --todo] [--log file]
  --todo   run only rows that have no 'held' entry in the log yet
"""
import argparse
import json
import os
import sys
import time

sys.path.insert(0, os.path.dirname(os.path.abspath(__file__)))
import common  # noqa: E402
import kx  # noqa: E402


def main():
    ap = argparse.ArgumentParser()
    ap.add_argument('--unit', default='a64')
    ap.add_argument('--batch', type=int, default=30)
    ap.add_argument('-j', type=int, default=8)
    ap.add_argument('--only', default=None)
    ap.add_argument('--todo', action='store_true')
    ap.add_argument('--playback', action='store_true')
    ap.add_argument('--log', default=os.path.join(common.VERIF, '.build', 'a64_rows.jsonl'))
    a = ap.parse_args()
    os.makedirs(os.path.dirname(a.log), exist_ok=True)
    rows = kx.row_names(os.path.join(common.VERIF, kx.UNITS[a.unit]['rows']))
    if a.only:
        sel = [r for r in rows if r in set(a.only.split(','))]
    else:
        sel = rows
    if a.todo:
        done = latest(a.log)
        sel = [r for r in sel if r not in done]
    print('%d rows selected' % len(sel))
    for k in range(0, len(sel), a.batch):
        chunk = sel[k:k + a.batch]
        t0 = time.time()
        try:
            r = kx.verify_unit(a.unit, only=set(chunk), jobs=a.j, playback=a.playback)
        except kx.Undecided as e:
            print('UNDECIDED batch %s: %s' % (chunk, str(e)[-3000:]))
            return 2
        with open(a.log, 'a') as f:
            for name, e in r['per_row'].items():
                e = dict(e)
                e['row'] = name
                e['at'] = time.time()
                f.write(json.dumps(e, default=str) + '\n')
                print('%-24s %-10s t=%s refusals=%s %s %s' % (name, e['outcome'], e.get('time'), e.get('refusals'),
                                                           (e.get('why') or '')[:300], e.get('overflow_sites') or ''))
                for c in e.get('counterexamples', []):
                    print('    cex %s exit=%s %s' % (c['operands'], c['replay_exit'], c['replay_output'][-700:].replace('\n', ' | ')))
        print('-- batch %d..%d wall %.0fs' % (k, k + len(chunk), time.time() - t0))
        sys.stdout.flush()
    return 0


def latest(log):
    d = {}
    if os.path.exists(log):
        for ln in open(log):
            try:
                e = json.loads(ln)
            except ValueError:
                continue
            d[e['row']] = e
    return d


if __name__ == '__main__':
    if len(sys.argv) > 1 and sys.argv[1] == 'summary':
        d = latest(os.path.join(common.VERIF, '.build', 'a64_rows.jsonl'))
        rows = kx.row_names(os.path.join(common.VERIF, kx.UNITS['a64']['rows']))
        cnt = {}
        for r in rows:
            o = d.get(r, {}).get('outcome', 'not-run')
            cnt.setdefault(o, []).append(r)
        for o, rs in cnt.items():
            print('%s: %d' % (o, len(rs)))
            if o != 'held':
                print('   ' + ' '.join(rs))
        sys.exit(0)
    sys.exit(main())
