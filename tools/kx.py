#!/usr/bin/env python3
"""kx — Kani route: build a harness crate around the REAL dora-asm crate of the working
tree, run every contract row as a loop-free full-domain `#[kani::proof]`, classify the
per-check results.

usage (debugging):  kx.py <unit> [--only name,name] [-j N] [--keep]
units: a64, x64   (contracts/<unit>_requests.rs + spec/<unit>dec.rs)
"""
import json
import os
import re
import shutil
import subprocess
import sys
import time

sys.path.insert(0, os.path.dirname(os.path.abspath(__file__)))
import common  # noqa: E402
from rustcut import Source  # noqa: E402

VERIF = common.VERIF

UNITS = {
    'a64': dict(rows='contracts/a64_requests.rs', mods=['spec/a64dec.rs'], crate='dora-asm',
                src='dora-asm/src/arm64.rs', impl='impl AssemblerArm64'),
    'x64': dict(rows='contracts/x64_requests.rs', mods=['spec/x64dec.rs'], crate='dora-asm',
                src='dora-asm/src/x64.rs', impl='impl AssemblerX64'),
    # private API of dora-asm/src/arm64.rs: the crate is COPIED to scratch and the rows are appended as a child module of
    # `arm64` (one `#[path] mod` line in arm64.rs, three `mod` lines in lib.rs; nothing inside existing items is touched)
    'a64p': dict(rows='contracts/a64p_rows.rs', mods=['spec/a64dec.rs'], crate='dora-asm', private=dict(host='src/arm64.rs', hostmod='arm64'),
                 src='dora-asm/src/arm64.rs', impl='impl AssemblerArm64'),
    # baseline code generator's macro assembler (private module `masm` of dora-cannon-compiler): scratch copy + child module
    'c09a': dict(rows='contracts/c09a_rows.rs', mods=['spec/x64dec.rs'], crate='dora-cannon-compiler', private=dict(host='src/masm.rs', hostmod='masm'),
                 src='dora-cannon-compiler/src/masm/x64.rs', impl='impl MacroAssembler'),
    # items cut verbatim out of dora-runtime (the crate itself needs libc/mmap and is too heavy for Kani)
    'c10': dict(rows='contracts/c10_rows.rs', mods=[], crate=None, gen=lambda: _gen_c10_cut()),
}


def _gen_c10_cut():
    """CodeSpan / CodeMap{new,insert,get} / CodeId from runtime/code.rs and Address from gc.rs, cut verbatim.
    `Code` (which these items never touch) is an opaque unit struct."""
    root = common.repo_root()
    C = Source(os.path.join(root, 'dora-runtime/src/runtime/code.rs'))
    G = Source(os.path.join(root, 'dora-runtime/src/gc.rs'))
    out = ['#![allow(unused)]', 'use std::cmp::Ordering;', 'use std::collections::BTreeMap;', 'use std::fmt;', 'pub struct Code;', '']
    out.append(G.cut_item('struct', 'Address')['text'])
    meths = []
    for bl in G.find_impls('impl Address'):
        d = G.depth[bl['open']] + 1
        # every method of `impl Address` that is self-contained (mentions no type but Address/Self and no path)
        for (nm, _pos) in G.fns_in(bl['open'] + 1, bl['end'] - 1, d):
            t = G.cut_fn(nm, bl['open'] + 1, bl['end'] - 1, depth=d)['text']
            body = re.sub(r'//[^\n]*', '', t)
            idents = set(re.findall(r'\b[A-Z][A-Za-z0-9_]*\b', body)) - {'Address', 'Self'}
            if idents or '::' in body or '<' in body.split('{')[0]:
                continue
            inner = body[body.index('{'):]
            free_calls = set(re.findall(r'(?<![\.\w])([a-z_][a-z0-9_]*)\(', inner)) - {'if', 'while', 'match', 'for', 'return'}
            if free_calls:
                continue
            meths.append(t)
    out.append('impl Address {\n' + '\n'.join(meths) + '\n}')
    for h in ('impl fmt::Debug for Address', 'impl PartialOrd for Address', 'impl Ord for Address', 'impl From<usize> for Address'):
        bls = G.find_impls(h)
        if not bls:
            raise Undecided('extraction: %s not found in gc.rs' % h)
        out.append(G.src[bls[0]['start']:bls[0]['end']])
    out.append(C.cut_item('struct', 'CodeId')['text'])
    for h in ('impl CodeId', 'impl From<usize> for CodeId'):
        bls = C.find_impls(h)
        if not bls:
            raise Undecided('extraction: %s not found in code.rs' % h)
        out.append(C.src[bls[0]['start']:bls[0]['end']])
    out.append(C.cut_item('struct', 'CodeSpan')['text'])
    for h in ('impl CodeSpan', 'impl PartialEq for CodeSpan', 'impl Eq for CodeSpan', 'impl PartialOrd for CodeSpan', 'impl Ord for CodeSpan'):
        bls = C.find_impls(h)
        if not bls:
            raise Undecided('extraction: %s not found in code.rs' % h)
        out.append(C.src[bls[0]['start']:bls[0]['end']])
    out.append(C.cut_item('struct', 'CodeMap')['text'])
    bls = C.find_impls('impl CodeMap')
    meths = []
    for nm in ('new', 'insert', 'get'):
        d = C.depth[bls[0]['open']] + 1
        meths.append(C.cut_fn(nm, bls[0]['open'] + 1, bls[0]['end'] - 1, depth=d)['text'])
    out.append('impl CodeMap {\n' + '\n'.join(meths) + '\n}')
    text = '\n\n'.join(out) + '\n'
    # the rows live in a sibling module: make the cut items visible to it (visibility only)
    text = re.sub(r'(?m)^(\s*)fn (new|intersect|insert|get)\(', r'\1pub fn \2(', text)
    text = re.sub(r'(?m)^struct CodeSpan', 'pub struct CodeSpan', text)
    text = re.sub(r'(?m)^(\s+)(start|end): Address,', r'\1pub \2: Address,', text)
    return {'cut': text}


class Undecided(Exception):
    pass


def row_names(path):
    text = open(path, encoding='utf-8').read()
    return re.findall(r'vp_harness!\(\s*([A-Za-z_][A-Za-z0-9_]*)\s*,', text)


def public_methods(unit):
    """Names of all `pub fn` in the assembler's inherent impl blocks (source scan)."""
    u = UNITS[unit]
    S = Source(os.path.join(common.repo_root(), u['src']))
    names = []
    for bl in S.find_impls(u['impl']):
        d = S.depth[bl['open']] + 1
        for (name, pos) in S.fns_in(bl['open'] + 1, bl['end'] - 1, d):
            ls = S.src.rfind('\n', 0, pos) + 1
            if re.match(r'\s*pub\s+fn\b', S.src[ls:pos + 2]):
                names.append(name)
    return names


def gen_crate(unit, dest):
    u = UNITS[unit]
    if u.get('private'):
        return gen_crate_private(unit, dest)
    return gen_crate_public(unit, dest)


def gen_crate_private(unit, dest):
    """Copy the crate, append the rows as a child module of the host module. Returns (rows, harness_prefix)."""
    u = UNITS[unit]
    root = common.repo_root()
    src_crate = os.path.join(root, u['crate'])
    if os.path.exists(dest):
        shutil.rmtree(dest)
    shutil.copytree(src_crate, dest, ignore=shutil.ignore_patterns('target'))
    shutil.copy(os.path.join(VERIF, 'spec', 'vp.rs'), os.path.join(dest, 'src', 'vp.rs'))
    mods = []
    for m in u['mods']:
        name = os.path.basename(m)[:-3]
        shutil.copy(os.path.join(VERIF, m), os.path.join(dest, 'src', name + '.rs'))
        mods.append(name)
    rows_mod = os.path.basename(u['rows'])[:-3]
    shutil.copy(os.path.join(VERIF, u['rows']), os.path.join(dest, 'src', rows_mod + '.rs'))
    rows = row_names(os.path.join(VERIF, u['rows']))
    host = os.path.join(dest, u['private']['host'])
    with open(host, 'a') as f:
        f.write('\n// ---- appended by /verif/tools/kx.py (private-API contract rows) ----\n#[path = "%s.rs"]\npub mod %s;\n' % (rows_mod, rows_mod))
    libname = u['crate'].replace('-', '_')
    reg = ['// generated', 'use crate::vp::Src;', 'pub const ALL: &[(&str, fn(&mut Src))] = &[']
    for r in rows:
        reg.append('    ("%s", crate::%s::%s::%s::run),' % (r, u['private']['hostmod'], rows_mod, r))
    reg.append('];')
    with open(os.path.join(dest, 'src', 'registry.rs'), 'w') as f:
        f.write('\n'.join(reg) + '\n')
    with open(os.path.join(dest, 'src', 'lib.rs'), 'a') as f:
        f.write('\n// ---- appended by /verif/tools/kx.py ----\n#[macro_use]\npub mod vp;\n' + ''.join('pub mod %s;\n' % m for m in mods)
                + '#[cfg(not(kani))]\npub mod registry;\n')
    os.makedirs(os.path.join(dest, 'src', 'bin'), exist_ok=True)
    main = open(os.path.join(VERIF, 'spec', 'kx_main.rs'), encoding='utf-8').read().replace('vp_rows::', libname + '::')
    with open(os.path.join(dest, 'src', 'bin', 'vp_run.rs'), 'w') as f:
        f.write(main)
    toml = open(os.path.join(dest, 'Cargo.toml'), encoding='utf-8').read()
    # sibling crates are used where they are, in the working tree
    toml = re.sub(r'path\s*=\s*"\.\./([^"]+)"', lambda m: 'path = "%s"' % os.path.join(root, m.group(1)), toml)
    toml += '\n[workspace]\n\n[lints.rust]\nunexpected_cfgs = { level = "allow", check-cfg = [\'cfg(kani)\'] }\n\n[profile.release]\ndebug-assertions = true\noverflow-checks = true\nopt-level = 1\n'
    with open(os.path.join(dest, 'Cargo.toml'), 'w') as f:
        f.write(toml)
    lock = os.path.join(root, 'Cargo.lock')
    if os.path.exists(lock):
        shutil.copy(lock, os.path.join(dest, 'Cargo.lock'))
    os.makedirs(os.path.join(dest, '.cargo'), exist_ok=True)
    with open(os.path.join(dest, '.cargo', 'config.toml'), 'w') as f:
        f.write('[net]\noffline = true\n')
    return rows, '%s::%s' % (u['private']['hostmod'], rows_mod)


def gen_crate_public(unit, dest):
    u = UNITS[unit]
    root = common.repo_root()
    os.makedirs(os.path.join(dest, 'src'), exist_ok=True)
    mods = []
    shutil.copy(os.path.join(VERIF, 'spec', 'vp.rs'), os.path.join(dest, 'src', 'vp.rs'))
    if u.get('gen'):
        for name, text in u['gen']().items():
            with open(os.path.join(dest, 'src', name + '.rs'), 'w') as f:
                f.write(text)
            mods.append(name)
    for m in u['mods'] + [u['rows']]:
        name = os.path.basename(m)[:-3]
        shutil.copy(os.path.join(VERIF, m), os.path.join(dest, 'src', name + '.rs'))
        mods.append(name)
    rows = row_names(os.path.join(VERIF, u['rows']))
    rows_mod = os.path.basename(u['rows'])[:-3]
    reg = ['// generated', 'use crate::vp::Src;', 'pub const ALL: &[(&str, fn(&mut Src))] = &[']
    for r in rows:
        reg.append('    ("%s", crate::%s::%s::run),' % (r, rows_mod, r))
    reg.append('];')
    with open(os.path.join(dest, 'src', 'registry.rs'), 'w') as f:
        f.write('\n'.join(reg) + '\n')
    lib = ['#![allow(unused, non_snake_case, non_camel_case_types)]', '#[macro_use]', 'pub mod vp;']
    lib += ['pub mod %s;' % m for m in mods]
    lib += ['#[cfg(not(kani))]', 'pub mod registry;']
    with open(os.path.join(dest, 'src', 'lib.rs'), 'w') as f:
        f.write('\n'.join(lib) + '\n')
    shutil.copy(os.path.join(VERIF, 'spec', 'kx_main.rs'), os.path.join(dest, 'src', 'main.rs'))
    toml = ['[package]', 'name = "vp_rows"', 'version = "0.0.0"', 'edition = "2021"', '',
            '[lib]', 'name = "vp_rows"', 'path = "src/lib.rs"', '',
            '[[bin]]', 'name = "vp_run"', 'path = "src/main.rs"', '',
            '[dependencies]'] + (['%s = { path = "%s" }' % (u['crate'], os.path.join(root, u['crate']))] if u['crate'] else []) + ['',
            '[workspace]', '',
            '[lints.rust]', 'unexpected_cfgs = { level = "allow", check-cfg = [\'cfg(kani)\'] }', '',
            '[profile.release]', 'debug-assertions = true', 'overflow-checks = true', 'opt-level = 1']
    with open(os.path.join(dest, 'Cargo.toml'), 'w') as f:
        f.write('\n'.join(toml) + '\n')
    lock = os.path.join(root, 'Cargo.lock')
    if os.path.exists(lock):
        shutil.copy(lock, os.path.join(dest, 'Cargo.lock'))
    os.makedirs(os.path.join(dest, '.cargo'), exist_ok=True)
    with open(os.path.join(dest, '.cargo', 'config.toml'), 'w') as f:
        f.write('[net]\noffline = true\n')
    return rows, rows_mod


HARNESS_RE = re.compile(r'^Checking harness (\S+?)\.\.\.', re.M)


def parse_kani_output(out):
    """Per harness: status, failed checks [(desc, file, line)], cover status, time.
    With -j N every line of a harness is prefixed `Thread k: `; the `Checking harness` line of a
    thread precedes its (atomically printed) result block."""
    blocks = {}      # harness -> text
    cur = {}         # thread -> harness
    active = None    # thread whose block we are inside
    for ln in out.split('\n'):
        m = re.match(r'^(?:Thread (\d+): )?Checking harness (\S+?)\.\.\.', ln)
        if m:
            t = m.group(1) or '0'
            cur[t] = m.group(2)
            blocks.setdefault(m.group(2), '')
            active = t if m.group(1) is None else None
            continue
        m = re.match(r'^Thread (\d+): ?(.*)$', ln)
        if m:
            active = m.group(1)
            ln = m.group(2)
        if active is not None and active in cur:
            blocks[cur[active]] += ln + '\n'
            if ln.startswith('Verification Time:'):
                active = None if len(cur) > 1 or '0' not in cur else active
    res = {}
    for name, part in blocks.items():
        d = dict(failed=[], status=None, cover=None, time=None, raw_tail=part[-1500:])
        m = re.search(r'VERIFICATION:-\s*(\w+)', part)
        if m:
            d['status'] = m.group(1)
        m = re.search(r'Verification Time:\s*([0-9.]+)s', part)
        if m:
            d['time'] = float(m.group(1))
        chunks = part.split('Failed Checks: ')[1:]
        for ch in chunks:
            # the description may be pretty-printed over several lines (long assert messages); it ends at ` File: "..."`
            fm = re.search(r'\n\s*File: "([^"]*)", line (\d+)(?:, in (\S+))?', ch)
            if fm and '\n\n' not in ch[:fm.start()]:
                desc = re.sub(r'\s+', ' ', ch[:fm.start()]).strip()
                d['failed'].append(dict(desc=desc, file=fm.group(1), line=int(fm.group(2)), fn=fm.group(3)))
            else:
                d['failed'].append(dict(desc=ch.split('\n', 1)[0].strip(), file='', line=0, fn=None))
        m = re.search(r'(\d+) of (\d+) cover properties satisfied', part)
        if m:
            d['cover'] = (int(m.group(1)), int(m.group(2)))
        m = re.search(r'\*\* (\d+) of (\d+) failed', part)
        if m:
            d['nchecks'] = int(m.group(2))
            d['nfailed'] = int(m.group(1))
        res[name] = d
    return res


REFUSAL_PAT = re.compile(r'assertion failed|explicit panic|called `Option::unwrap\(\)`|called `Result::unwrap\(\)`|'
                         r'expect|index out of bounds|unreachable|panicked|This is a placeholder message|internal error: entered unreachable|illegal|range end index|slice|unbound label')
OVERFLOW_PAT = re.compile(r'attempt to (add|subtract|multiply|shift|negate|divide)|arithmetic overflow|overflow')


def classify_check(fc, harness_dir):
    """-> 'violation' | 'refusal' | 'overflow' | 'undecided'"""
    desc = fc['desc']
    f = fc['file'] or ''
    if desc.startswith('VP:') or 'VP:' in desc:
        return 'violation'
    # files that belong to the oracle / harness (everything else under the crate is repository code, whose panics are refusals)
    base = os.path.basename(f)
    in_harness = base in ('vp.rs', 'x64dec.rs', 'a64dec.rs', 'registry.rs', 'vp_run.rs', 'kx_main.rs', 'main.rs') \
        or base.endswith('_rows.rs') or base.endswith('_requests.rs')
    if 'unwinding assertion' in desc or 'not supported' in desc or 'unsupported' in desc.lower():
        return 'undecided'
    if in_harness:
        # an index/slice/overflow failure inside the harness or the reference decoder: a defect of the
        # oracle, never an alarm about the code
        return 'undecided'
    if OVERFLOW_PAT.search(desc):
        return 'overflow'
    if REFUSAL_PAT.search(desc):
        return 'refusal'
    return 'refusal' if f else 'undecided'


def run_kani(crate_dir, harnesses, jobs=16, timeout=3600, extra=()):
    cmd = ['cargo', 'kani', '--output-format', 'terse', '-j', str(jobs)]
    for h in harnesses:
        cmd += ['--harness', h]
    cmd += list(extra)
    env = common.cargo_env()
    env['CARGO_TARGET_DIR'] = os.path.join(crate_dir, 'target')
    t0 = time.time()
    try:
        p = subprocess.run(cmd, cwd=crate_dir, env=env, stdout=subprocess.PIPE, stderr=subprocess.STDOUT, text=True, timeout=timeout)
        out, rc = p.stdout, p.returncode
    except subprocess.TimeoutExpired as e:
        out = (e.stdout or b'')
        if isinstance(out, bytes):
            out = out.decode('utf-8', 'replace')
        rc = None
    return dict(cmd=' '.join(cmd[:8]) + (' ... (%d harnesses)' % len(harnesses)), rc=rc, out=out, wall=time.time() - t0)


MAX_PLAYBACK = 3


def playback_values(crate_dir, harness, timeout=900):
    """Run one failing harness again with concrete playback and return the operand values
    (one integer per kani::any(), in draw order), or None."""
    cmd = ['cargo', 'kani', '--harness', harness, '-Z', 'concrete-playback', '--concrete-playback=print',
           '--output-format', 'terse']
    env = common.cargo_env()
    env['CARGO_TARGET_DIR'] = os.path.join(crate_dir, 'target')
    try:
        p = subprocess.run(cmd, cwd=crate_dir, env=env, stdout=subprocess.PIPE, stderr=subprocess.STDOUT, text=True, timeout=timeout)
    except subprocess.TimeoutExpired:
        return None, ''
    out = p.stdout
    # the generated unit test contains `let concrete_vals: Vec<Vec<u8>> = vec![ // comment \n vec![..], ...];`
    tests = re.findall(r'let concrete_vals: Vec<Vec<u8>> = vec!\[(.*?)\];', out, re.S)
    sets = []
    for t in tests:
        vals = []
        for vm in re.finditer(r'vec!\[([0-9,\s]*)\]', t):
            bs = [int(x) for x in vm.group(1).replace(' ', '').split(',') if x != '']
            v = 0
            for i, b in enumerate(bs):
                v |= b << (8 * i)
            vals.append(v)
        sets.append(vals)
    return sets, out


def build_runner(crate_dir):
    env = common.cargo_env()
    env['CARGO_TARGET_DIR'] = os.path.join(crate_dir, 'target-run')
    p = subprocess.run(['cargo', 'build', '--release', '--offline', '-q', '--bin', 'vp_run'], cwd=crate_dir, env=env,
                       stdout=subprocess.PIPE, stderr=subprocess.STDOUT, text=True)
    if p.returncode != 0:
        raise Undecided('row runner failed to build: ' + p.stdout[-3000:])
    return os.path.join(env['CARGO_TARGET_DIR'], 'release', 'vp_run')


def verify_unit(unit, only=None, jobs=16, keep=False, playback=True, workdir=None, timeout=3600):
    """Returns dict(rows=[...], per_row={name: {...}}, stats, crate_dir). Raises Undecided."""
    d = workdir or common.scratch('kx-' + unit)
    rows, rows_mod = gen_crate(unit, d)
    sel = [r for r in rows if (only is None or r in only)]
    if not sel:
        raise Undecided('no contract rows selected for unit ' + unit)
    harnesses = ['%s::%s::proof' % (rows_mod, r) for r in sel]
    run = run_kani(d, harnesses, jobs=jobs, timeout=timeout)
    if run['rc'] is None:
        raise Undecided('cargo kani timed out')
    if 'error: could not compile' in run['out'] or re.search(r'^error(\[E\d+\])?:', run['out'], re.M) and 'Checking harness' not in run['out']:
        raise Undecided('harness crate does not compile against the working tree:\n' + run['out'][-4000:])
    parsed = parse_kani_output(run['out'])
    per = {}
    for r, h in zip(sel, harnesses):
        key = h if h in parsed else None
        if key is None:
            for k in parsed:
                if k.endswith('::' + h):
                    key = k
        if key is None:
            per[r] = dict(outcome='undecided', why='no result for harness (kani output lost)')
            continue
        pr = parsed[key]
        kinds = {'violation': [], 'refusal': [], 'overflow': [], 'undecided': []}
        for fc in pr['failed']:
            kinds[classify_check(fc, d)].append(fc)
        e = dict(status=pr['status'], time=pr['time'], nchecks=pr.get('nchecks'), cover=pr['cover'],
                 refusals=len(kinds['refusal']), overflow_sites=['%s:%d %s' % (os.path.relpath(f['file'], common.repo_root()) if f['file'].startswith('/') else f['file'], f['line'], f['desc']) for f in kinds['overflow']],
                 violations=[f['desc'] for f in kinds['violation']])
        if kinds['undecided']:
            e['outcome'] = 'undecided'
            e['why'] = '; '.join('%s @%s:%d' % (f['desc'], f['file'], f['line']) for f in kinds['undecided'])[:600]
        elif kinds['violation']:
            e['outcome'] = 'violation'
        elif pr['status'] is None:
            e['outcome'] = 'undecided'
            e['why'] = 'no verification status: ' + pr['raw_tail'][-400:]
        elif pr['status'] == 'FAILED' and not (kinds['refusal'] or kinds['overflow']):
            e['outcome'] = 'undecided'
            e['why'] = 'FAILED without a classified failed check: ' + pr['raw_tail'][-600:]
        else:
            # vacuity guard: the cover after the call must be reachable (some operand is accepted)
            if pr['cover'] is None or pr['cover'][0] < 1:
                e['outcome'] = 'undecided'
                e['why'] = 'vacuity guard: VP-REACH cover not satisfied (every operand refused)'
            else:
                e['outcome'] = 'held'
        per[r] = e
    res = dict(unit=unit, rows=sel, per_row=per, crate_dir=d, kani_cmd=run['cmd'], kani_wall_s=round(run['wall'], 1),
               checks_total=sum((e.get('nchecks') or 0) for e in per.values()),
               solver_time_s=round(sum((e.get('time') or 0) for e in per.values()), 1))
    # counterexamples for violated rows: the verifier's own counterexample (concrete playback, one more CBMC run per row, serial:
    # Kani refuses --concrete-playback with -j) for the first MAX_PLAYBACK violated rows; for the others -- typically the same
    # helper failing under many methods -- a concrete input is searched by executing the row on the real crate with seeded
    # operands. Either way the input is REPLAYED on the real code and only counts if the replay fails.
    if playback:
        runner = None
        n_pb = 0
        for r, e in per.items():
            if e['outcome'] != 'violation':
                continue
            e['counterexamples'] = []
            if runner is None:
                try:
                    runner = build_runner(d)
                except Undecided as ex:
                    e['replay_error'] = str(ex)[:500]
                    break
            sets = []
            source = 'kani-concrete-playback'
            if n_pb < MAX_PLAYBACK:
                n_pb += 1
                h = '%s::%s::proof' % (rows_mod, r)
                sets, raw = playback_values(d, h)
            if not sets:
                source = 'seeded execution of the row on the real crate'
                rc, out, err, _ = common.run_cmd([runner, 'sample', r, str(common.seed()), '50000'], timeout=300)
                m = re.search(r'^VIOLATED \S+ operands=\[([^\]]*)\]', out, re.M)
                if m:
                    sets = [[int(x) for x in m.group(1).replace(' ', '').split(',') if x != '']]
            seen = set()
            for vals in sets or []:
                t = tuple(vals)
                if t in seen:
                    continue
                seen.add(t)
                rc, out, err, _ = common.run_cmd([runner, 'replay', r, ','.join(str(v) for v in vals)], timeout=60)
                e['counterexamples'].append(dict(operands=vals, replay_exit=rc, replay_output=out.strip()[-1500:], source=source))
    if not keep and workdir is None:
        res['crate_dir'] = None
        shutil.rmtree(d, ignore_errors=True)
    return res


def main():
    import argparse
    ap = argparse.ArgumentParser()
    ap.add_argument('unit')
    ap.add_argument('--only', default=None)
    ap.add_argument('-j', type=int, default=16)
    ap.add_argument('--keep', action='store_true')
    ap.add_argument('--no-playback', action='store_true')
    a = ap.parse_args()
    only = set(a.only.split(',')) if a.only else None
    try:
        r = verify_unit(a.unit, only=only, jobs=a.j, keep=a.keep, playback=not a.no_playback)
    except Undecided as e:
        sys.stderr.write('UNDECIDED: %s\n' % e)
        return 2
    bad = 0
    for name, e in r['per_row'].items():
        print('%-28s %-10s t=%s checks=%s refusals=%s %s %s' % (name, e['outcome'], e.get('time'), e.get('nchecks'), e.get('refusals'),
                                                              e.get('violations') or '', e.get('why') or ''))
        for c in e.get('counterexamples', []):
            print('    cex operands=%s replay_exit=%s\n      %s' % (c['operands'], c['replay_exit'], c['replay_output'].replace('\n', '\n      ')))
        if e.get('overflow_sites'):
            print('    release-wraparound-undecided sites: %s' % e['overflow_sites'])
        if e['outcome'] != 'held':
            bad += 1
    print('kani wall %.1fs, solver %.1fs, %d checks' % (r['kani_wall_s'], r['solver_time_s'], r['checks_total']))
    if r.get('crate_dir'):
        print('crate kept at', r['crate_dir'])
    return 1 if bad else 0


if __name__ == '__main__':
    sys.exit(main())
