#!/usr/bin/env python3
"""Cross-check the a64 reference decoder (+ its llvm-mc rendering) against LLVM 14.

For every accepted sample of every contract row (`vp_run sample all <seed> <n>` prints
`SAMPLE <row> <operands> w=<hex>[,<hex>..] asm="<rendering>[; ..]" ...`) this
  1. disassembles each emitted word with `llvm-mc-14 --disassemble -M no-aliases` and compares the
     text with the rendering of the reference decoder's Insn (numbers compared numerically);
  2. if the texts differ (LLVM prints a few aliases even with no-aliases, e.g. lsl/ubfx for UBFM,
     or prefers `lsl` for uxtx on SP), assembles the rendering with llvm-mc and requires the
     encoding to be the emitted word.
Any remaining disagreement is a defect of the oracle (decoder / render), printed as MISMATCH.

usage: a64_oracle_check.py [--seed 1] [-n 40] [--rows a,b] [--crate DIR] [--show]
"""
import argparse
import os
import re
import subprocess
import sys

sys.path.insert(0, os.path.dirname(os.path.abspath(__file__)))
import common  # noqa: E402
import kx  # noqa: E402

MATTR = '+lse,+neon,+fp-armv8,+fullfp16,+v8.4a'
LLVM = 'llvm-mc-14'


DIS_CACHE = {}


def disasm_batch(words):
    """one llvm-mc run for many words; results keyed by the encoding llvm echoes back"""
    words = [w for w in set(words) if w not in DIS_CACHE]
    if not words:
        return
    inp = '\n'.join(' '.join('0x%02x' % ((w >> (8 * k)) & 0xff) for k in range(4)) for w in words) + '\n'
    p = subprocess.run([LLVM, '--disassemble', '-triple=aarch64', '-mattr=' + MATTR, '-M', 'no-aliases', '--show-encoding'],
                       input=inp, stdout=subprocess.PIPE, stderr=subprocess.PIPE, text=True)
    for ln in p.stdout.split('\n'):
        m = re.match(r'\s*(.*?)\s*// encoding: \[([^\]]*)\]', ln)
        if not m:
            continue
        bs = [int(x, 16) for x in m.group(2).split(',')]
        w = bs[0] | bs[1] << 8 | bs[2] << 16 | bs[3] << 24
        DIS_CACHE[w] = re.sub(r'\s+', ' ', m.group(1).strip())
    for w in words:
        DIS_CACHE.setdefault(w, None)


def disasm(word):
    if word in DIS_CACHE:
        return DIS_CACHE[word]
    bs = ' '.join('0x%02x' % ((word >> (8 * k)) & 0xff) for k in range(4))
    p = subprocess.run([LLVM, '--disassemble', '-triple=aarch64', '-mattr=' + MATTR, '-M', 'no-aliases'],
                       input=bs, stdout=subprocess.PIPE, stderr=subprocess.PIPE, text=True)
    lines = [ln.strip() for ln in p.stdout.split('\n') if ln.strip() and not ln.strip().startswith('.')]
    if 'invalid instruction encoding' in p.stderr or not lines:
        return None
    return re.sub(r'\s+', ' ', lines[0])


def assemble(text):
    p = subprocess.run([LLVM, '-triple=aarch64', '-mattr=' + MATTR, '-show-encoding'],
                       input=text + '\n', stdout=subprocess.PIPE, stderr=subprocess.PIPE, text=True)
    m = re.search(r'encoding: \[([^\]]*)\]', p.stdout)
    if not m:
        return None, p.stderr.strip()[-200:]
    bs = [int(x, 16) for x in m.group(1).split(',')]
    if len(bs) != 4:
        return None, 'not 4 bytes'
    return bs[0] | bs[1] << 8 | bs[2] << 16 | bs[3] << 24, ''


def norm(text):
    """token list; immediates as integers modulo 2^64"""
    text = text.lower().replace('\t', ' ')
    toks = [t for t in re.split(r'[\s,]+', text.replace('[', ' [ ').replace(']', ' ] ').replace('!', ' ! ')) if t]
    out = []
    for t in toks:
        if t.startswith('#'):
            v = t[1:]
            try:
                out.append(('imm', (int(v, 0) if not v.startswith('-') else -int(v[1:], 0)) & (2 ** 64 - 1)))
                continue
            except ValueError:
                pass
        out.append(t)
    # "add x0, x1, #0" == "add x0, x1, #0, lsl #0" etc. are not normalised: fall back to assembling
    return out


def main():
    ap = argparse.ArgumentParser()
    ap.add_argument('--seed', type=int, default=1)
    ap.add_argument('-n', type=int, default=3, help='runs per row and seed (the runner prints samples of the first 3 only)')
    ap.add_argument('--seeds', type=int, default=40, help='number of seeds (seed, seed+1, ...)')
    ap.add_argument('--per-row', type=int, default=8, help='samples checked per row')
    ap.add_argument('--rows', default='all')
    ap.add_argument('--crate', default=None)
    ap.add_argument('--show', action='store_true')
    a = ap.parse_args()
    d = a.crate or os.path.join('/var/tmp/verif-scratch', 'a64-oracle')
    os.makedirs(d, exist_ok=True)
    kx.gen_crate('a64', d)
    runner = kx.build_runner(d)
    rows = a.rows.split(',')
    lines = []
    for sd in range(a.seed, a.seed + a.seeds):
        for r in rows:
            p = subprocess.run([runner, 'sample', r, str(sd), str(a.n)], stdout=subprocess.PIPE, stderr=subprocess.PIPE, text=True)
            lines += p.stdout.split('\n')
    allw = []
    for ln in lines:
        m = re.match(r'SAMPLE \S+ \[[^\]]*\] .*?w=([0-9a-f,]+) asm=', ln)
        if m:
            allw += [int(x, 16) for x in m.group(1).split(',')]
    disasm_batch(allw)
    accepted = set()
    stats = dict(samples=0, words=0, text_equal=0, asm_equal=0, mismatch=0)
    per_row = {}
    violated = []
    norows = []
    for ln in lines:
        if ln.startswith('VIOLATED'):
            violated.append(ln)
            continue
        m = re.match(r'ROW (\S+) held=(\d+) refused=(\d+)', ln)
        if m:
            if int(m.group(2)) > 0:
                accepted.add(m.group(1))
            continue
        if not ln.startswith('SAMPLE '):
            continue
        m = re.match(r'SAMPLE (\S+) (\[[^\]]*\]) .*?w=([0-9a-f,]+) asm="([^"]*)"', ln)
        if not m:
            continue
        row, ops, ws, asms = m.group(1), m.group(2), m.group(3).split(','), [x.strip() for x in m.group(4).split(';')]
        if per_row.get(row, 0) >= a.per_row:
            continue
        stats['samples'] += 1
        per_row[row] = per_row.get(row, 0) + 1
        for wtxt, rend in zip(ws, asms):
            w = int(wtxt, 16)
            stats['words'] += 1
            t1 = disasm(w)
            if t1 is not None and norm(t1) == norm(rend):
                stats['text_equal'] += 1
                if a.show:
                    print('ok   %-14s %08x  %-40s | %s' % (row, w, t1, rend))
                continue
            enc, err = assemble(rend)
            if t1 is not None and enc == w:
                stats['asm_equal'] += 1
                if a.show:
                    print('ok~  %-14s %08x  %-40s | %s' % (row, w, t1, rend))
                continue
            stats['mismatch'] += 1
            print('MISMATCH row=%s ops=%s word=%08x llvm="%s" rendered="%s" reassembled=%s %s' % (
                row, ops, w, t1, rend, ('%08x' % enc) if enc is not None else None, err))
    print('rows with samples: %d; %s' % (len(per_row), stats))
    norows = [r for r in kx.row_names(os.path.join(common.VERIF, kx.UNITS['a64']['rows'])) if r not in per_row and (a.rows == 'all' or r in rows)]
    if norows:
        print('rows without any accepted sample (not cross-checked): %s' % ' '.join(norows))
    seenv = set()
    for v in violated:
        r = v.split()[1]
        if r not in seenv:
            seenv.add(r)
            print(v[:400])
    return 1 if stats['mismatch'] else 0


if __name__ == '__main__':
    sys.exit(main())
