#!/usr/bin/env python3
"""x64_oracle_check — cross-check the x86-64 reference decoder (spec/x64dec.rs) and the requests of
contracts/x64_requests.rs against LLVM 14.

  x64_oracle_check.py [--seed N] [--n N] [--rows a,b,c] [--crate DIR]
      builds the row runner (kx.py's generated crate), runs `vp_run sample all <seed> <n>`, and for every
      SAMPLE line compares  llvm-mc-14 --disassemble  of the note's bytes  with the note's render(got)
      and render(want).
  x64_oracle_check.py --bytes FILE --decoder BIN
      (decoder development) FILE has one hex byte string per line, BIN prints `hex | len | render | osz=N`.

Note format expected from the rows:   bytes=<hex hex ..> osz=<N> got=<at&t text> want=<at&t text>
Disagreement between llvm-mc and the rendering = a defect of the oracle (decoder or request), exit 1.
"""
import os
import re
import subprocess
import sys

sys.path.insert(0, os.path.dirname(os.path.abspath(__file__)))

LLVM_MC = 'llvm-mc-14'


def llvm_disasm_many(byte_strings):
    """Disassemble each hex string separately in ONE llvm-mc run: every sample is followed by a marker
    (eight int3) so that instruction boundaries of a sample cannot leak into the next one.
    Returns a list of lists of instruction texts."""
    res = []
    # llvm-mc reads all bytes as one stream; run one process per chunk of samples but separate samples by
    # a recognisable marker that no sample ends with.
    marker = ' '.join(['0x0f', '0x0b'] * 8)
    CH = 200
    for k in range(0, len(byte_strings), CH):
        chunk = byte_strings[k:k + CH]
        inp = []
        for bs in chunk:
            inp.append(' '.join('0x' + b for b in bs.split()))
            inp.append(marker)
        p = subprocess.run([LLVM_MC, '--disassemble', '-triple=x86_64'], input='\n'.join(inp) + '\n',
                           stdout=subprocess.PIPE, stderr=subprocess.PIPE, text=True)
        lines = [l.strip() for l in p.stdout.split('\n')]
        lines = [l for l in lines if l and not l.startswith('.')]
        # error lines go to stderr; map them by line number of the input
        errs = {}
        for m in re.finditer(r'<stdin>:(\d+):\d+: (warning|error): ([^\n]*)', p.stderr):
            errs.setdefault((int(m.group(1)) - 1) // 2, []).append(m.group(3))
        cur = []
        run = 0
        out = []
        for l in lines:
            if l == 'ud2':
                run += 1
                if run == 8:
                    out.append(cur)
                    cur = []
                    run = 0
                continue
            if run:
                cur += ['ud2'] * run
                run = 0
            cur.append(l)
        if len(out) != len(chunk):
            # fall back: one process per sample
            out = []
            for bs in chunk:
                q = subprocess.run([LLVM_MC, '--disassemble', '-triple=x86_64'], input=' '.join('0x' + b for b in bs.split()) + '\n',
                                   stdout=subprocess.PIPE, stderr=subprocess.PIPE, text=True)
                ls = [l.strip() for l in q.stdout.split('\n')]
                ls = [l for l in ls if l and not l.startswith('.')]
                if 'invalid instruction' in q.stderr or 'error' in q.stderr:
                    ls.append('<llvm-error>')
                out.append(ls)
        else:
            for j in range(len(chunk)):
                if j in errs:
                    out[j].append('<llvm-error>')
        res += out
    return res


def mask_imm(text, osz):
    bits = osz if osz in (8, 16, 32) else 64

    def f(m):
        v = int(m.group(1))
        return '$0x%x' % (v & ((1 << bits) - 1))
    return re.sub(r'\$(-?\d+)', f, text)


SHIFT1 = re.compile(r'^((?:lock |rep |repne )*(?:rol|ror|rcl|rcr|shl|shr|sar)[bwlq]) ([^$]+)$')


def split_operands(t):
    """split an AT&T operand list on the commas outside parentheses"""
    out, depth, cur = [], 0, ''
    for ch in t:
        if ch == '(':
            depth += 1
        elif ch == ')':
            depth -= 1
        if ch == ',' and depth == 0:
            out.append(cur.strip())
            cur = ''
        else:
            cur += ch
    if cur.strip():
        out.append(cur.strip())
    return out


def norm(text, osz):
    t = text.split('#')[0]
    t = re.sub(r'\s+', ' ', t).strip()
    t = mask_imm(t, osz)
    # llvm prints the shift-by-one encodings (D0/D1) without a count: normal form has $1
    m = SHIFT1.match(t)
    if m and len(split_operands(m.group(2))) == 1:
        t = '%s $0x1, %s' % (m.group(1), m.group(2))
    # an SIB byte that encodes "no index" with a scale: llvm shows the pseudo register %riz
    t = re.sub(r'\(,\s*%riz(,\d)?\)', '', t)
    t = re.sub(r',\s*%riz(,\d)?', '', t)
    # scale 1 is implicit
    t = re.sub(r',1\)', ')', t)
    # displacement / branch offsets: decimal, llvm may print them in hex for large values
    t = re.sub(r'(?<![\w$%])(-?)0x([0-9a-fA-F]+)(?=[(]|$)', lambda m: m.group(1) + str(int(m.group(2), 16)), t)
    t = t.replace(', ', ',')
    return t


def llvm_text(insns):
    """join llvm's instruction list of one sample: `lock` / `rep` prefixes are printed as separate lines"""
    out = []
    pend = ''
    for l in insns:
        l = re.sub(r'\s+', ' ', l.split('#')[0]).strip()
        if l in ('lock', 'rep', 'repne', 'repe'):
            pend += l + ' '
            continue
        out.append(pend + l)
        pend = ''
    if pend:
        out.append(pend.strip())
    return out


def compare(samples):
    """samples: list of dict(row, bytes, osz, got, want). Returns list of disagreement strings."""
    dis = llvm_disasm_many([s['bytes'] for s in samples])
    bad = []
    for s, d in zip(samples, dis):
        lt = llvm_text(d)
        # rows of label forms emit filler nops around the instruction: drop them on both sides
        fill = s.get('fill', (0, 0))
        core = lt[fill[0]:len(lt) - fill[1]] if fill != (0, 0) else lt
        if len(core) != 1:
            bad.append('%s: llvm decodes %d instructions from %s: %s' % (s['row'], len(core), s['bytes'], lt))
            continue
        l = norm(core[0], s['osz'])
        for k in ('got', 'want'):
            if k in s and s[k] is not None:
                mine = norm(s[k], s['osz'])
                if mine != l:
                    bad.append('%s: bytes %s: llvm `%s` vs %s `%s`   [raw: %s | %s]' % (s['row'], s['bytes'], l, k, mine, core[0], s[k]))
    return bad


NOTE_RE = re.compile(r'bytes=\[?([0-9a-fA-F, ]*?)\]? osz=(\d+) got=(.*?) want=(.*?)(?: fill=(\d+),(\d+))?$')


def parse_sample_lines(text):
    samples = []
    for ln in text.split('\n'):
        if not ln.startswith('SAMPLE '):
            continue
        m = re.match(r'SAMPLE (\S+) (\[[^\]]*\]) (.*)$', ln)
        if not m:
            continue
        nm = NOTE_RE.search(m.group(3))
        if not nm:
            continue
        bs = ' '.join(x.strip() for x in nm.group(1).replace(',', ' ').split())
        s = dict(row=m.group(1), operands=m.group(2), bytes=bs, osz=int(nm.group(2)), got=nm.group(3).strip(), want=nm.group(4).strip())
        if nm.group(5) is not None:
            s['fill'] = (int(nm.group(5)), int(nm.group(6)))
        samples.append(s)
    return samples


def build_runner(crate_dir):
    import common
    env = common.cargo_env()
    env['CARGO_NET_OFFLINE'] = 'true'
    env['CARGO_TARGET_DIR'] = os.path.join(crate_dir, 'target-run')
    p = subprocess.run(['cargo', 'build', '--release', '--offline', '-q', '--bin', 'vp_run'], cwd=crate_dir, env=env,
                       stdout=subprocess.PIPE, stderr=subprocess.STDOUT, text=True)
    if p.returncode != 0:
        sys.stderr.write(p.stdout[-4000:])
        raise SystemExit(2)
    return os.path.join(env['CARGO_TARGET_DIR'], 'release', 'vp_run')


def main():
    import argparse
    ap = argparse.ArgumentParser()
    ap.add_argument('--seed', type=int, default=1)
    ap.add_argument('--seeds', type=int, default=1, help='number of consecutive seeds (the runner prints 3 samples per row and seed)')
    ap.add_argument('--n', type=int, default=40)
    ap.add_argument('--rows', default='all')
    ap.add_argument('--crate', default=None)
    ap.add_argument('--bytes', default=None)
    ap.add_argument('--decoder', default=None)
    ap.add_argument('-v', action='store_true')
    a = ap.parse_args()
    if a.bytes:
        lines = [l.strip() for l in open(a.bytes) if l.strip()]
        p = subprocess.run([a.decoder], input='\n'.join(lines) + '\n', stdout=subprocess.PIPE, text=True)
        samples = []
        for ln in p.stdout.strip().split('\n'):
            h, n, r, o = [x.strip() for x in ln.split('|')]
            samples.append(dict(row='bytes', bytes=h, osz=int(o.split('=')[1]), got=r, want=None))
        bad = compare(samples)
        for b in bad:
            print('DISAGREE', b)
        print('%d byte strings, %d disagreements' % (len(samples), len(bad)))
        return 1 if bad else 0
    import kx
    crate = a.crate
    if crate is None:
        import common
        crate = common.scratch('kx-x64-oracle')
        kx.gen_crate('x64', crate)
    runner = build_runner(crate)
    rows = a.rows.split(',')
    out = ''
    viol = []
    for r in rows:
        for sd in range(a.seed, a.seed + a.seeds):
            p = subprocess.run([runner, 'sample', r, str(sd), str(a.n)], stdout=subprocess.PIPE, stderr=subprocess.PIPE, text=True)
            out += p.stdout
    for ln in out.split('\n'):
        if ln.startswith('VIOLATED '):
            viol.append(ln)
    viol_rows = sorted(set(v.split()[1] for v in viol))
    samples = parse_sample_lines(out)
    bad = compare(samples)
    for b in bad:
        print('DISAGREE', b)
    rows_seen = sorted(set(s['row'] for s in samples))
    if a.v:
        for v in viol:
            print(v[:400])
    print('%d samples of %d rows compared with llvm-mc: %d disagreements; %d rows had a violated sample (contract violations are kx.py\'s business, not this check)' % (
        len(samples), len(rows_seen), len(bad), len(viol_rows)))
    return 1 if bad else 0


if __name__ == '__main__':
    sys.exit(main())
