"""C09 — (b) the address-keyed wait table is a correct map across rehash / moving collections (ObjectHashMap);
(a) atomic RMW operations are emitted as single locked instructions (baseline x64 masm) — see kx unit."""
import os
import re

import common
import vprop
from rustcut import Source

PROP = 'C09'


def extract_ohm():
    root = common.repo_root()
    S = Source(os.path.join(root, 'dora-runtime/src/runtime/waitlists.rs'))
    parts = []
    for c in ('MIN_CAPACITY', 'EMPTY', 'DELETED'):
        parts.append(S.cut_item('const', c)['text'])
    parts.append(S.cut_item('struct', 'ObjectHashMap')['text'])
    for bl in S.find_impls('impl<T: Default + Clone> ObjectHashMap<T>'):
        parts.append(S.src[bl['start']:bl['end']])
    parts.append(S.cut_fn('capacity_for_entries', depth=0)['text'])
    parts.append(S.cut_item('struct', 'HashMapEntry')['text'])
    for bl in S.find_impls('impl<T: Default + Clone> Default for HashMapEntry<T>'):
        parts.append(S.src[bl['start']:bl['end']])
    drv = open(os.path.join(common.VERIF, 'runners', 'c09', 'driver.rs'), encoding='utf-8').read()
    ohm = '#![allow(unused)]\nuse crate::env::*;\nuse std::mem::MaybeUninit;\n' + '\n\n'.join(parts) + '\n\n' + drv
    G = Source(os.path.join(root, 'dora-runtime/src/gc.rs'))
    a = [G.cut_item('struct', 'Address')['text']]
    meths = []
    for bl in G.find_impls('impl Address'):
        d = G.depth[bl['open']] + 1
        for nm in ('from', 'to_usize', 'null', 'from_ptr'):
            try:
                meths.append(G.cut_fn(nm, bl['open'] + 1, bl['end'] - 1, depth=d)['text'])
            except Exception:
                pass
    a.append('impl Address {\n' + '\n'.join(meths) + '\n}')
    for bl in G.find_impls('impl From<usize> for Address'):
        a.append(G.src[bl['start']:bl['end']])
    addr = '#![allow(unused)]\n' + '\n\n'.join(a) + '\n'
    return ohm, addr


def _runner_spec():
    ohm, addr = extract_ohm()
    return dict(name='c09', deps={}, lock=False, extra_files={'ohm.rs': ohm, 'address.rs': addr},
                budget_quick_ms=4000, budget_thorough_ms=90000)


def run(tier):
    pre_und = []
    runner = None
    try:
        runner = _runner_spec()
    except Exception as e:
        pre_und.append('runner extraction: %s' % e)
    units = []
    vs = os.path.join(common.VERIF, 'contracts', 'c09_waittable.vspec')
    if os.path.exists(vs):
        units.append(dict(vspec=vs))
    return vprop.run_verus_property(PROP, tier, units, runner=runner, assumptions=[], samples=[], not_decided=[], pre_undecided=pre_und)


def replay(rp):
    fi = rp.get('failing_input')
    if not fi:
        print('replay file carries no concrete input (no-failing-input-found); failed obligation: %s' % rp.get('obligation'))
        print(rp.get('verus_output', ''))
        return 1
    spec = _runner_spec()
    runner = common.build_runner(spec['name'], spec['deps'], lock=False, extra_files=spec['extra_files'])
    rc, out, err, _ = common.run_cmd([runner, 'replay', str(fi['seed']), str(fi['iter'])])
    print(out.strip())
    return 1 if rc != 0 else 0
