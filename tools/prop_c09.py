"""C09 — (b) the address-keyed wait table is a correct map across rehash / moving collections (ObjectHashMap);
(a) atomic RMW operations are emitted as single locked instructions (baseline x64 masm) — see kx unit."""
import os
import re

import common
import kprop
import vprop
from rustcut import Source

PROP = 'C09'


def extract_ohm():
    root = common.repo_root()
    S = Source(os.path.join(root, 'dora-runtime/src/runtime/waitlists.rs'))
    parts = []
    for c in ('MIN_CAPACITY', 'EMPTY', 'DELETED'):
        parts.append(S.cut_item('const', c)['text'])
    parts.append(S.cut_item('struct', 'ObjectHashMap')['text'])
    for bl in S.find_impls('impl<T: Default + Clone> ObjectHashMap<T>'):
        parts.append(S.src[bl['start']:bl['end']])
    parts.append(S.cut_fn('capacity_for_entries', depth=0)['text'])
    parts.append(S.cut_item('struct', 'HashMapEntry')['text'])
    for bl in S.find_impls('impl<T: Default + Clone> Default for HashMapEntry<T>'):
        parts.append(S.src[bl['start']:bl['end']])
    # the wait queues on top of the table: WaitLists (without block/enqueue, which need managed handles and park the thread),
    # append_to_waitlist, HeadAndTail; from threads.rs the thread pointer and the three link operations of DoraThread
    parts.append(S.cut_item('struct', 'WaitLists')['text'])
    wl = []
    for bl in S.find_impls('impl WaitLists'):
        d = S.depth[bl['open']] + 1
        for nm in ('new', 'conditionally_enqueue', 'wakeup', 'wakeup_all', 'visit_roots'):
            wl.append(S.cut_fn(nm, bl['open'] + 1, bl['end'] - 1, depth=d)['text'])
    parts.append('impl WaitLists {\n' + '\n\n'.join(wl) + '\n}')
    parts.append(S.cut_fn('append_to_waitlist', depth=0)['text'])
    parts.append(S.cut_item('struct', 'HeadAndTail')['text'])
    for bl in S.find_impls('impl Default for HeadAndTail'):
        parts.append(S.src[bl['start']:bl['end']])
    T = Source(os.path.join(root, 'dora-runtime/src/threads.rs'))
    parts.append(T.cut_item('struct', 'DoraThreadPtr')['text'])
    for bl in T.find_impls('impl DoraThreadPtr'):
        parts.append(T.src[bl['start']:bl['end']])
    parts.append(T.cut_item('struct', 'BlockingData')['text'])
    for bl in T.find_impls('impl BlockingData'):
        parts.append(T.src[bl['start']:bl['end']])
    th = []
    for bl in T.find_impls('impl DoraThread'):
        d = T.depth[bl['open']] + 1
        for nm in ('prepare_for_waitlist', 'set_waitlist_successor', 'remove_from_waitlist'):
            try:
                th.append(T.cut_fn(nm, bl['open'] + 1, bl['end'] - 1, depth=d)['text'])
            except Exception:
                pass
    if len(th) != 3:
        raise RuntimeError('DoraThread link operations not found (prepare_for_waitlist / set_waitlist_successor / remove_from_waitlist)')
    # N8: DoraThread reduced to the one field these three methods touch
    parts.append('pub struct DoraThread { blocking_data: BlockingData }\nimpl DoraThread {\n' + '\n\n'.join(th) + '\n}')
    drv = open(os.path.join(common.VERIF, 'runners', 'c09', 'driver.rs'), encoding='utf-8').read()
    drv += open(os.path.join(common.VERIF, 'runners', 'c09', 'driver_wait.rs'), encoding='utf-8').read()
    ohm = '#![allow(unused)]\nuse crate::env::*;\nuse std::mem::MaybeUninit;\nuse parking_lot::{Condvar, Mutex};\n' + '\n\n'.join(parts) + '\n\n' + drv
    G = Source(os.path.join(root, 'dora-runtime/src/gc.rs'))
    a = [G.cut_item('struct', 'Address')['text']]
    meths = []
    for bl in G.find_impls('impl Address'):
        d = G.depth[bl['open']] + 1
        for nm in ('from', 'to_usize', 'null', 'from_ptr', 'is_null', 'to_ptr', 'is_non_null'):
            try:
                meths.append(G.cut_fn(nm, bl['open'] + 1, bl['end'] - 1, depth=d)['text'])
            except Exception:
                pass
    a.append('impl Address {\n' + '\n'.join(meths) + '\n}')
    for bl in G.find_impls('impl From<usize> for Address'):
        a.append(G.src[bl['start']:bl['end']])
    # stand-in for gc.rs' Debug impl (needed by #[derive(Debug)] on DoraThreadPtr); formatting only
    a.append('impl std::fmt::Debug for Address {\n    fn fmt(&self, f: &mut std::fmt::Formatter) -> std::fmt::Result { write!(f, "{:#x}", self.to_usize()) }\n}')
    addr = '#![allow(unused)]\n' + '\n\n'.join(a) + '\n'
    return ohm, addr


def forwarding_scan():
    """BaselineAssembler::<op>_synchronized (dora-cannon-compiler/src/asm.rs) must forward to the macro assembler's operation of the SAME
    name (the width is part of the name); the rows of unit c09a decide the macro assembler, this scan ties the code generator's entry
    points to them. A scan of the call, not a proof. Returns [(function, called, line)] for every wrapper that forwards elsewhere."""
    S = Source(os.path.join(common.repo_root(), 'dora-cannon-compiler/src/asm.rs'))
    bad = []
    n = 0
    for bl in S.find_impls("impl<'a> BaselineAssembler<'a>"):
        d = S.depth[bl['open']] + 1
        for (name, pos) in S.fns_in(bl['open'] + 1, bl['end'] - 1, d):
            if not name.endswith('_synchronized'):
                continue
            n += 1
            f = S.cut_fn(name, bl['open'] + 1, bl['end'] - 1, depth=d)
            calls = re.findall(r'self\s*\.\s*masm\s*\.\s*([a-z0-9_]+_synchronized)\s*\(', f['text'])
            if calls != [name]:
                bad.append((name, calls, S.src.count('\n', 0, f['start']) + 1))
    return n, bad


def _runner_spec():
    ohm, addr = extract_ohm()
    return dict(name='c09', deps={}, lock=True, extra_deps=['parking_lot = "*"'], extra_files={'ohm.rs': ohm, 'address.rs': addr},
                budget_quick_ms=4000, budget_thorough_ms=90000)


def run(tier):
    pre_und = []
    runner = None
    try:
        runner = _runner_spec()
    except Exception as e:
        pre_und.append('runner extraction: %s' % e)
    units = [dict(vspec=os.path.join(common.VERIF, 'contracts', 'c09_waittable.vspec'))]
    # clause (a): instruction selection of the atomic operations (Kani rows on the baseline macro assembler).
    # quick tier: the 64-bit rows and both compare-exchange rows (20-90 s each); the 8/32-bit rows (4-5 min each) are thorough-tier
    quick_rows = {'store_int64_synchronized', 'exchange_int64_synchronized', 'compare_exchange_int32_synchronized',
                  'compare_exchange_int64_synchronized', 'fetch_add_int64_synchronized'}
    import kx
    kx.MAX_PLAYBACK = 1 if tier == 'quick' else 3     # a playback of a masm row rebuilds dora-cannon-compiler under Kani (3-4 min)
    if os.environ.get('VERIF_SKIP_KANI') == '1':
        # self-test mode only (tools/selftest.py on mutants that do not touch the macro assembler): the Kani rows are not run and not claimed
        kv, ku, kcov, kobl = [], [], dict(kani_unit='SKIPPED (VERIF_SKIP_KANI=1, self-test mode): clause (a) not checked in this run'), (0, 0, 'skipped')
    else:
        kv, ku, kcov, kobl = kprop.kani_rows_for_verus_property('c09a', only=(quick_rows if tier == 'quick' else None), jobs=(5 if tier == 'quick' else 3))
    pre_und += ku
    assumptions = [
        'keys are object addresses > 1 (0 and 1 are the EMPTY / DELETED markers) - precondition of insert',
        'ObjectHashMap::remove is never called on a table that was never filled (capacity 0, same epoch): caller-history precondition '
        '(wakeup_all is reached only after an enqueue; Dora-side guard waiters != 0)',
        'the collector may rewrite live keys in place (through visit_roots slots) but keeps them distinct and > 1, bumps the epoch when it does, '
        'and does not run while the wait-list lock is held (cur_epoch() is constant inside one operation)',
        'usize is 64 bits; an allocation of n table entries that returns has n <= 2^59',
        'assumed std contracts (trusted_base): vec![d; n].into_boxed_slice(), mem::replace, MaybeUninit placeholders (SOME value), Default::default() of the entry (key = null)',
        'visit_roots (raw pointers + FnMut) is not under contract; the replay runner drives it to emulate a moving collection',
        'clause (a): that a LOCK-prefixed CMPXCHG/XADD and an XCHG with a memory operand are indivisible is the processor\'s guarantee; the rows decide which instruction is selected '
        '(contracts/c09a_rows.rs, child module of masm in a scratch copy of dora-cannon-compiler; MacroAssembler is built field by field because ::new() executes cpuid)',
        'the wait queues built on the table (WaitLists::{conditionally_enqueue, wakeup, wakeup_all, visit_roots}, append_to_waitlist, DoraThread::{prepare_for_waitlist, set_waitlist_successor, remove_from_waitlist}) '
        'are NOT under contract (raw thread pointers, parking_lot): they are cut verbatim and EXECUTED sequentially by the replay runner against a FIFO model '
        '(a thread is blocked exactly while queued; wakeup releases the longest waiter; wakeup_all releases all; a false condition enqueues nobody; moving collections keep the queues): sampled',
        'mutual exclusion, lost wake-ups under real interleavings and joins are NOT decided here: interleavings are outside this technique',
    ]
    samples = [
        dict(invariant='wf', statement='capacity = |data| is 0 or a power of two >= 8; entries / deleted count the live / tombstone slots; entries + deleted <= 3/4 capacity '
             '(so an EMPTY slot always exists and every probe loop terminates); live keys are unique; unless the GC epoch changed, no EMPTY slot lies between a key\'s home slot and its slot'),
        dict(function='ObjectHashMap::insert', contract='requires wf && key > 1; ensures wf, domain\' = domain + {key}, value of key = value, all other keys keep their values; terminates (mutual recursion with rehash bounded)'),
        dict(function='ObjectHashMap::get', contract='requires wf; ensures wf, same abstract map, result = lookup(key); rehashes first if the collector moved objects'),
        dict(function='ObjectHashMap::remove', contract='ensures domain\' = domain - {key}, result = old value, other keys untouched'),
        dict(row='compare_exchange_int64_synchronized', contract='for all 16^3 register choices: returned ==> expected is RAX and the emitted bytes are exactly `lock cmpxchg [address], new` (64-bit)'),
        dict(row='exchange_int64_synchronized', contract='exactly `xchg [address], new` (implicitly locked) followed by `mov old, new`; no other memory access'),
        dict(function='ObjectHashMap::rehash', contract='requires only the GC-stable part of wf; ensures wf, same abstract map, no tombstones, epoch current'),
    ]
    not_decided = ['mutual exclusion / no lost wake-up / join semantics in every interleaving', 'WaitLists::block / enqueue (managed handles, parking) and the per-key thread queues under concurrency (their sequential behaviour is executed by the runner: sampled)',
                   'atomic operations of the optimizing generator (pkgs/boots, Dora) and of the arm64 macro assembler']
    try:
        nwrap, badf = forwarding_scan()
        kcov = dict(kcov or {}, forwarding_scan=dict(wrappers=nwrap, wrong=[b[0] for b in badf]))
        for (name, calls, line) in badf:
            kv.append(('scan:asm.rs:' + name, 'BaselineAssembler::%s forwards to the macro assembler operation of the same name' % name,
                       dict(note='dora-cannon-compiler/src/asm.rs:%d: %s calls %s' % (line, name, calls or 'nothing'),
                            failing_input=dict(kind='call-site', file='dora-cannon-compiler/src/asm.rs', line=line, function=name, calls=calls)), True))
        if nwrap == 0:
            pre_und.append('forwarding scan: no *_synchronized wrapper found in impl BaselineAssembler (asm.rs)')
    except Exception as e:
        pre_und.append('forwarding scan failed: %s' % e)
    return vprop.run_verus_property(PROP, tier, units, runner=runner, assumptions=assumptions, samples=samples, not_decided=not_decided, pre_undecided=pre_und,
                                    pre_violations=kv, extra_cov=kcov, extra_obligations=kobl)


def replay(rp):
    fi = rp.get('failing_input')
    if fi and fi.get('kind') == 'call-site':
        n, bad = forwarding_scan()
        hit = [b for b in bad if b[0] == fi.get('function')]
        if hit:
            print('STILL FAILS on the real code: %s (asm.rs:%d) calls %s' % (hit[0][0], hit[0][2], hit[0][1]))
            return 1
        print('the wrapper forwards to the operation of the same name on the real code')
        return 0
    if fi and fi.get('kind') == 'kani-row':
        return kprop.replay_row(rp)
    if not fi:
        print('replay file carries no concrete input (no-failing-input-found); failed obligation: %s' % rp.get('obligation'))
        print(rp.get('verus_output', ''))
        return 1
    spec = _runner_spec()
    runner = common.build_runner(spec['name'], spec['deps'], lock=True, extra_files=spec['extra_files'], extra_deps=spec.get('extra_deps'))
    rc, out, err, _ = common.run_cmd([runner, 'replay-wait' if fi.get('kind') == 'wait' else 'replay', str(fi['seed']), str(fi['iter'])])
    print(out.strip())
    return 1 if rc != 0 else 0
