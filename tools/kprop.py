"""Generic driver for a property decided by Kani units (contract rows run as full-domain proofs)."""
import json
import os
import re
import time

import common
import kx


def run_kani_property(prop, tier, units, assumptions=(), samples=(), not_decided=(), extra_cov=None, jobs=14,
                      row_filter=None, not_covered=None, method_check=None, extra_steps=None):
    """units: list of kx unit names. method_check: dict(unit -> callable returning (missing_methods, extra_rows)).
    extra_steps(rep, cov) may add violations / coverage (e.g. a Verus unit that belongs to the same property)."""
    t0 = time.time()
    # the quick tier must stay inside the 15-minute limit also when rows FAIL: one verifier counterexample (1-2.5 min) instead of three,
    # the other violated rows get their concrete input from seeded execution (seconds)
    kx.MAX_PLAYBACK = 1 if tier == 'quick' else 3
    rep = common.Report(prop)
    cov = dict(obligations=0, discharged=0, checker_cmd='', trusted_base=[], samples=list(samples), units=[],
               functions_under_contract=[], rows_held=0, rows_violated=0, rows_undecided=0,
               release_wraparound_undecided=[])
    nviol = 0
    for u in units:
        only = None
        if row_filter:
            only = row_filter(u, tier)
        # a filter may return several passes [dict(only=set, jobs=n, timeout=s)]: cheap rows at full parallelism, then the
        # memory-hungry rows a few at a time; their results are merged
        passes = only if isinstance(only, list) else [dict(only=only, jobs=jobs, timeout=3600)]
        res = None
        failed = False
        for ps in passes:
            if ps['only'] is not None and not ps['only']:
                continue
            try:
                r1 = kx.verify_unit(u, only=ps['only'], jobs=ps.get('jobs', jobs), timeout=ps.get('timeout', 3600))
            except kx.Undecided as e:
                rep.undecide('[%s] %s' % (u, str(e)[:1500]))
                failed = True
                continue
            except Exception as e:
                rep.undecide('[%s] kx failed: %s' % (u, str(e)[:800]))
                failed = True
                continue
            if res is None:
                res = r1
            else:
                res['rows'] = list(res['rows']) + list(r1['rows'])
                res['per_row'].update(r1['per_row'])
                res['kani_wall_s'] = round(res['kani_wall_s'] + r1['kani_wall_s'], 1)
                res['solver_time_s'] = round(res['solver_time_s'] + r1['solver_time_s'], 1)
                res['checks_total'] += r1['checks_total']
                res['kani_cmd'] += ' ; ' + r1['kani_cmd']
        if res is None:
            continue
        cov['checker_cmd'] = (cov['checker_cmd'] + ' ; ' if cov['checker_cmd'] else '') + res['kani_cmd']
        unit_info = dict(unit=u, rows=len(res['rows']), kani_wall_s=res['kani_wall_s'], solver_time_s=res['solver_time_s'],
                         cbmc_checks=res['checks_total'], held=0, violated=[], undecided=[])
        for row, e in res['per_row'].items():
            n = e.get('nchecks') or 0
            cov['obligations'] += n
            if e.get('overflow_sites'):
                for sname in e['overflow_sites']:
                    if sname not in cov['release_wraparound_undecided']:
                        cov['release_wraparound_undecided'].append(sname)
            if e['outcome'] == 'held':
                cov['discharged'] += n
                cov['rows_held'] += 1
                unit_info['held'] += 1
                cov['functions_under_contract'].append('%s::%s' % (u, row))
            elif e['outcome'] == 'violation':
                cov['rows_violated'] += 1
                unit_info['violated'].append(row)
                cov['discharged'] += max(0, n - len(e.get('violations', [])))
                cexs = [c for c in e.get('counterexamples', []) if c.get('replay_exit') == 1]
                key = 'kani:%s:%s' % (u, row)
                payload = dict(unit=u, row=row, failed_clauses=e.get('violations'), kani_status=e.get('status'),
                               solver_time_s=e.get('time'))
                if cexs:
                    payload['failing_input'] = dict(unit=u, row=row, operands=cexs[0]['operands'], replay_output=cexs[0]['replay_output'])
                    payload['all_counterexamples'] = cexs[:5]
                if rep.violation(key, '%s :: %s :: %s' % (u, row, '; '.join(e.get('violations', []))[:300]), payload, bool(cexs)):
                    nviol += 1
                else:
                    # an OPEN known finding: its failed clause(s) are reported separately and are not part of what this run claims
                    k = len(e.get('violations', []))
                    cov['obligations'] -= k
                    cov.setdefault('known_finding_obligations', []).append('%s::%s (%d failed clause%s)' % (u, row, k, '' if k == 1 else 's'))
            else:
                cov['rows_undecided'] += 1
                unit_info['undecided'].append(row)
                rep.undecide('[%s] row %s: %s' % (u, row, (e.get('why') or '')[:400]))
        unit_info['slowest_rows'] = sorted([(round(e.get('time') or 0, 1), r) for r, e in res['per_row'].items()], reverse=True)[:8]
        cov['units'].append(unit_info)
        if method_check and u in method_check:
            try:
                missing, extra = method_check[u](res['rows'])
                if missing:
                    rep.undecide('[%s] public methods without a contract row and not listed as not-covered: %s' % (u, ', '.join(missing[:20])))
                if extra:
                    rep.undecide('[%s] contract rows for methods that no longer exist: %s' % (u, ', '.join(extra[:20])))
            except Exception as ex:
                rep.undecide('[%s] method-set check failed: %s' % (u, ex))
    if extra_steps:
        nviol += extra_steps(rep, cov) or 0
    cov['trusted_base'] = list(cov['trusted_base']) + [
        'Kani 0.68 / CBMC 6.11 (bit-precise; checked debug-build arithmetic)',
        'the contract rows and, where used, the reference decoder (spec/*.rs): the oracle',
        'vacuity guard per row: kani::cover!(true) after the call must be satisfiable',
    ]
    cov['not_decided'] = list(not_decided)
    cov['not_covered'] = list(not_covered or [])
    cov['undecided'] = rep.undecided
    if extra_cov:
        cov.update(extra_cov)
    common.write_evidence(prop, tier, 'proof', cov, list(assumptions), time.time() - t0, nviol,
                          extra=dict(known_findings=rep.known))
    return rep.exit_code()


def replay_row(rp):
    fi = rp.get('failing_input')
    if not fi:
        print('replay file carries no concrete input (no-failing-input-found); failed obligation: %s' % rp.get('obligation'))
        return 1
    d = common.scratch('kx-replay-' + fi['unit'])
    try:
        kx.gen_crate(fi['unit'], d)
        runner = kx.build_runner(d)
        rc, out, err, _ = common.run_cmd([runner, 'replay', fi['row'], ','.join(str(v) for v in fi['operands'])], timeout=120)
        print(out.strip())
        return 1 if rc != 0 else 0
    finally:
        import shutil
        shutil.rmtree(d, ignore_errors=True)


def kani_rows_for_verus_property(unit, only=None, jobs=8):
    """Run one Kani unit as part of a property whose main driver is vprop. Returns
    (pre_violations, pre_undecided, extra_cov, extra_obligations)."""
    pre_v, pre_u = [], []
    cov = dict(unit=unit)
    obl = dis = 0
    cmd = ''
    try:
        res = kx.verify_unit(unit, only=only, jobs=jobs)
    except kx.Undecided as e:
        return pre_v, ['[%s] %s' % (unit, str(e)[:1200])], dict(kani_unit=cov), (0, 0, '')
    except Exception as e:
        return pre_v, ['[%s] kx failed: %s' % (unit, str(e)[:600])], dict(kani_unit=cov), (0, 0, '')
    cmd = res['kani_cmd']
    cov.update(rows=len(res['rows']), kani_wall_s=res['kani_wall_s'], solver_time_s=res['solver_time_s'], held=[], violated=[], undecided=[])
    for row, e in res['per_row'].items():
        n = e.get('nchecks') or 0
        obl += n
        if e['outcome'] == 'held':
            dis += n
            cov['held'].append(row)
        elif e['outcome'] == 'violation':
            cov['violated'].append(row)
            dis += max(0, n - len(e.get('violations', [])))
            cexs = [c for c in e.get('counterexamples', []) if c.get('replay_exit') == 1]
            payload = dict(unit=unit, row=row, failed_clauses=e.get('violations'))
            if cexs:
                payload['failing_input'] = dict(kind='kani-row', unit=unit, row=row, operands=cexs[0]['operands'], replay_output=cexs[0]['replay_output'])
            pre_v.append(('kani:%s:%s' % (unit, row), '%s :: %s :: %s' % (unit, row, '; '.join(e.get('violations', []))[:300]), payload, bool(cexs)))
        else:
            cov['undecided'].append(row)
            pre_u.append('[%s] row %s: %s' % (unit, row, (e.get('why') or '')[:300]))
    return pre_v, pre_u, dict(kani_unit=cov), (obl, dis, cmd)
