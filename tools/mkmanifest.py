#!/usr/bin/env python3
"""Regenerates MANIFEST.json from the table below (keeps it valid at all times)."""
import json, os
V = os.path.dirname(os.path.dirname(os.path.abspath(__file__)))

CLAIMED = {}
NA = {}

def claim(pid, engine, technique, text, note, design_ref):
    CLAIMED[pid] = dict(
        property_id=pid,
        quick_cmd='bin/check %s quick' % pid,
        thorough_cmd='bin/check %s thorough' % pid,
        evidence_file='evidence/%s.json' % pid,
        replay_cmd_template='bin/check replay {path}',
        engine=engine,
        level_claimed=dict(category='proof', text=text, design_ref=design_ref),
        level_note=note,
        technique=technique)

claim('C19', 'verus',
      'contract-based deductive verification (Verus) of the real dora-symbol functions, extracted mechanically on every run',
      'All six functions of dora-symbol/src/lib.rs carry Verus contracts against spec functions (esc_all, unesc, fnv_spec, shorten_spec); '
      'the property clauses are lemmas over those contracts, for all strings with no bound: round trip (hence injectivity), character set, '
      'length cap, shortened != unshortened, equal shortened symbols imply equal 128-bit hash of the whole symbol; plus one generated lemma per '
      'fixed "dora_*" runtime symbol literal found in the sources. A failed obligation is reported with a concrete failing input found on the real crate '
      'by the replay runner, or with no-failing-input-found.',
      'Trusted: Verus/Z3, vstd specs, the assume_specification/external_body items listed in evidence.trusted_base (std String/format!/strip_prefix/from_utf8), '
      'rewrites N1-N7 of DESIGN.md 3.2. Not decided: uniqueness of display names per instantiation; FNV collision freedom.',
      'DESIGN.md §4 C19')

claim('C18', 'verus',
      'contract-based deductive verification (Verus) of the real dora-bytecode writer/reader functions, extracted mechanically on every run',
      'Clause decided: every bytecode function reads back as the instruction sequence it was written as, for all operand widths and jump distances. '
      'All 70 public BytecodeWriter emit methods, the label/forward-jump machinery and the reader (varint/fixed primitives, read_arguments, the 70-arm read_instruction, '
      'both opcode conversions) carry Verus contracts against one table-driven wire format; the round trip for one instruction, for sequences and for patched forward jumps are lemmas over those contracts, '
      'with no bound on operand values, buffer sizes or sequence length. The visitor interface the compilers consume (Iterator::next, BytecodeFullIteration::read, the 70-arm dispatch_instruction) is under contract in a second unit: '
      'a recording visitor generated from the trait/enum declarations receives exactly the decoded instruction sequence, one visit_instruction(start) before each callback. '
      'Failed obligations are reported with a concrete failing instruction sequence found on the real crate by the replay runner, or no-failing-input-found.',
      'Trusted: Verus/Z3, vstd, rewrites N1-N8 (DESIGN.md 3.2), assumed items in evidence.trusted_base (emit_location frame, usize->u32 try_into, mem::replace, opaque const-pool entry constructors). '
      'NOT proved, executed by replay runners on the real crates (sampled): jump tables, the wire.rs type encoding and the package clause (decode(encode(p)) == p, same bytes again, truncated / trailing / corrupted files refused without a crash) '
      'on programs the real front end emits; one genuine crash was repaired (fix: commit), the missing integrity check is an open known finding. Not decided: build-via-package equality, Dora-side readers, jump tables.',
      'DESIGN.md §4 C18')

claim('C20', 'verus',
      'contract-based deductive verification (Verus) of the real position.rs functions, extracted mechanically on every run',
      'Clauses decided: (1) converting a byte offset on a character boundary to (line, UTF-16 column) and back returns the same offset; (2) positions past the end of a line or of the document are clamped into the document. '
      'utf8_offset_to_utf16_position, utf16_position_to_utf8_offset and span_to_range carry Verus contracts against char-level spec functions (to_position_spec, to_offset_spec); round trip and clamping are lemmas over them, '
      'for all texts (any line-ending style, astral characters), all boundary offsets and ALL (line, column) pairs, with proofs of no slice/index/overflow panic under the stated well-formedness of the line table. '
      'Clause (3), symbol ranges (inside the document, selection inside range, children inside parents, no panic of the document-symbol scan), is NOT proved: the three functions of document_symbols.rs are cut verbatim and executed '
      'by the replay runner on generated program-like texts (sampled); two genuine defects found this way were repaired by fix: commits.',
      'Trusted: Verus/Z3, vstd (encode_utf8 lemmas, char::len_utf8), assumed std contracts in evidence.trusted_base (str range indexing, chars(), encode_utf16().count(), binary_search, char::len_utf16), '
      'ASSUMED well-formedness of compute_line_starts (Peekable<Chars> is outside Verus; cross-checked by the replay runner on every generated text). Not decided: symbol ranges, server entry points.',
      'DESIGN.md §4 C20')

claim('C16', 'verus',
      'contract-based deductive verification (Verus) of the real lexer and of the real parser event-accounting functions, extracted mechanically on every run',
      'Clauses decided: (1) the lexer cuts every text into consecutive non-empty tokens on character boundaries, starting at byte 0 and ending at the end of the text, so concatenating the token texts reproduces the source byte for byte '
      '(lex, read_token and all 24 cursor/reader functions of dora-parser/src/lexer.rs under contract; partition postcondition + theorem; termination of every loop; every unwrap/expect/unreachable!() inside proved safe); '
      '(2) every lexed token, trivia included, is advanced exactly once: the 14 Parser functions that touch events/leading/token_idx '
      '(raw_advance, advance, skip_trivia, advance_by_*_trivia, open, close, current/nth/is_eof, parse_file) carry Verus contracts around one accounting invariant; parse_file ensures '
      '#Advance events == #tokens - 1 (the EOF sentinel) and leading == 0, for all token lists with no bound; the internal `unreachable!()` arms are proved unreachable. '
      'The ~150 grammar functions are covered by an assumed contract plus a syntactic frame scan. A replay runner parses generated texts with the real crate and checks the tree text byte for byte.',
      'Trusted: Verus/Z3, vstd, rewrites N1-N8, the ASSUMED contract of parse_element (frame scan is a scan, not a proof), ASSUMED contracts of the &str cursor primitives and std character classes (evidence.trusted_base). '
      'Not decided: token kinds, build_tree, error spans, re-parse equality.',
      'DESIGN.md §4 C16')

claim('C10', 'kani+verus',
      'contract-based verification: Kani/CBMC loop-free full-domain proofs of the real CodeSpan code, Verus contracts on CodeMap and on the stack-map / source-position tables; all cut mechanically on every run',
      'Clauses decided: (1) the code ranges registered with the runtime are disjoint, so every address resolves to exactly one function: '
      'CodeSpan::{new, intersect} and its PartialEq/Eq/PartialOrd/Ord impls (with gc::Address) are cut verbatim and proved, for all usize bounds with no bound on values: intersect <=> real overlap, '
      'cmp is a strict total order on pairwise disjoint spans (Equal <=> overlap, antisymmetric, transitive) and a one-byte point query is Equal to exactly the containing span and ordered correctly against the rest; '
      'CodeMap::{new, insert, get} are proved in Verus over an assumed BTreeMap contract: the registered ranges stay pairwise disjoint and get(pc) returns the unique range containing pc. '
      '(2) the stack-map and source-position tables of a compiled function (GcPointTable, LocationTable in dora-compiler): insert keeps the offsets strictly increasing (source-position tables are ordered), '
      'get(offset) returns the entry recorded for exactly that return offset and None iff there is none. Failed rows come with CBMC counterexamples replayed on the same cut code.',
      'Trusted: Kani/CBMC, Verus/Z3, the rows (contracts/c10_rows.rs). ASSUMED: BTreeMap is a map under a lawful Ord (std; BTreeMap exhausts CBMC memory), binary_search_by_key (std), the callers insert with increasing offsets. '
      'Not decided: presence/shape of stack maps in emitted code, slot ranges, `.s` metadata, arm64, optimizing generator.',
      'DESIGN.md §4 C10')

claim('C09', 'verus+kani',
      'contract-based deductive verification: Verus contracts on the real ObjectHashMap (the address-keyed wait table), extracted mechanically on every run; Kani/CBMC full-domain proofs of the instruction selection of the baseline generator\'s atomic operations',
      'Clause decided: the wait lists keep their entries "also when collections move the mutex and condition objects while threads are queued on them" - the sequential core: '
      'ObjectHashMap::{new, with_capacity, get, insert, remove, rehash, maybe_rehash_*} carry Verus contracts against an abstract map (domain + value predicates) around a representation invariant '
      '(power-of-two capacity, exact live/tombstone counts, load factor incl. tombstones, unique keys, no EMPTY slot on any probe path unless the GC epoch changed). Proved for all tables, keys and operation histories: '
      'every operation implements map semantics on ALL keys, every probe loop terminates, and a table whose keys were rewritten by a moving collection is rehashed before it is probed. '
      'The proof attempt exposed a genuine hang (tombstone exhaustion), repaired in /repo by a fix: commit; the unit verifies on the repaired tree. '
      'Clause "atomic read-modify-write operations are indivisible", instruction-selection half: for the x86-64 macro assembler of the baseline generator, store/exchange/compare-exchange/fetch-add (_synchronized) are proved, for all register choices, '
      'to emit exactly ONE memory-accessing instruction of the architecturally indivisible kind (xchg with memory operand, lock cmpxchg, lock xadd) of the requested width on the requested address, followed only by register moves (9 Kani rows; quick tier runs 5).',
      'Trusted: Verus/Z3, vstd, rewrites N1-N8, assumed std contracts in evidence.trusted_base, assumptions about the collector (keys stay distinct, epoch bump, no GC under the lock). '
      'that a locked instruction is indivisible is the processor\'s guarantee. '
      'NOT decided: mutual exclusion, lost wake-ups, join, thread queue links, atomics of the optimizing generator and of arm64 - interleaving properties are outside this technique.',
      'DESIGN.md §4 C09')

claim('C07', 'kani+verus',
      'contract-based verification: Kani/CBMC loop-free full-domain proofs of every public instruction method of the real x86-64 assembler against a reference decoder, plus Verus contracts on the jump/label code',
      'Every one of the 209 public instruction methods of dora_asm::x64::AssemblerX64 has a contract row (225 rows): operands range over all 16 GPR/XMM registers, all five Address constructors with any base/index/scale/i32 displacement, any i64 immediate, every condition; '
      'postcondition: the emitted bytes decode, under a reference decoder written from the SDM and validated against llvm-mc, to exactly the requested mnemonic, operand size and operands, with nothing left over; an operand the assembler cannot encode must be refused by a panic. '
      'CBMC decides each row for all operands at once; counterexamples are replayed on the real crate. Jumps to labels (jmp/jcc/jmp_near/jcc_near, resolve_jumps) are additionally proved in Verus for ALL distances, short and near, forward and backward. '
      'Quick tier (≈ 6 min): every 2nd of the 155 cheap rows is proved (which half rotates with VERIF_SEED) + the Verus unit; all other rows, the 39 slow address rows, the bounded label rows and the executed-only jump-distance sweeps are EXECUTED on the real crate with 20 000 seeded operand draws each (sampled, not counted as proved); thorough tier (≈ 90 min): all 226 Kani rows.',
      'Trusted: Kani/CBMC, Verus/Z3, the reference decoder + request table (oracle; cross-checked against llvm-mc on ~15 000 samples, not proved), debug-build arithmetic. Open known finding: testl_ri narrows to the 8-bit form for 0..=255. '
      'Not covered: the Dora-side assembler (pkgs/boots/assembler/x64.dora), callers in masm/x64.rs.',
      'DESIGN.md §4 C07, §9')

claim('C08', 'kani+verus',
      'contract-based verification: Kani/CBMC loop-free full-domain proofs of every public instruction method of the real AArch64 assembler (and of its private class encoders) against a reference decoder, plus Verus contracts on the branch/label code',
      'Every one of the 286 public instruction methods of dora_asm::arm64::AssemblerArm64 has a contract row (312 rows) and the private branch class encoders / range predicates have 10 more (scratch copy of the crate with the rows appended as a child module): '
      'operands range over x0..x30, zr, sp, v0..v31, any u32/i32/u64/i64 immediate, every condition/shift/extend; postcondition: the emitted word decodes, under a reference decoder written from the Arm ARM and validated against llvm-mc, to exactly the request - so an operand that cannot be encoded must be refused, a silently truncated field is a violation. '
      'Branches to labels (b, b.cond, cbz/cbnz, tbz/tbnz, adr; resolve_jumps incl. the out-of-range fallbacks) are proved in Verus for ALL distances over the class-encoder contracts. Six genuine defects were found and repaired (fix: commits). '
      'Quick tier (≈ 6 min): every 3rd of the 266 cheap rows (which third rotates with VERIF_SEED) + the 10 private rows + the Verus unit are proved; all other rows, the bounded label rows and the 11 slow multi-instruction helpers are EXECUTED on the real crate with seeded operands (sampled, not counted as proved); thorough tier (≈ 90 min): all 322 rows.',
      'Trusted: Kani/CBMC, Verus/Z3, the reference decoder + request table (oracle; 0 disagreements with llvm-mc on 3343 sampled words), debug-build arithmetic. '
      'Not covered: pkgs/boots/assembler/arm64.dora, callers in masm/arm64.rs. The 11 multi-instruction helper rows need 15-17 GB and 13-16 min each: thorough tier only (all hold).',
      'DESIGN.md §4 C08, §9')

NA_REASONS = {
 'C01': 'quantifies over all programs and the behaviour of emitted machine code of two generators (one written in Dora); no function contract can state it',
 'C02': 'relational property between two compilers over all programs and run-time values; memory safety of generated code is not a property of a Rust function',
 'C03': 'whole-heap reachability invariant over unsafe raw-pointer collectors and worker threads; Verus cannot ingest the code unrewritten, Kani has no threads/heap of that size',
 'C04': 'interleaving + liveness property of atomics/mutex/condvar protocol; Kani has no threads, Verus would need the code rewritten onto its own atomic/lock types',
 'C05': 'needs a formal type system as specification and a proof over ~30 kLOC of type checker; no contract within reach expresses accepted <=> well-typed',
 'C06': 'panic-freedom/termination of a ~60 kLOC front end (HashMap, Arc, iterator adapters) on all texts; neither verifier ingests it',
 'C07': 'claimed later in this build (Kani full-domain harnesses against a reference decoder); not yet registered',
 'C08': 'claimed later in this build (Kani full-domain harnesses against a reference decoder); not yet registered',
 'C09': 'interleaving properties (mutual exclusion, lost wake-ups, join) are out of reach; the sequential clauses planned in DESIGN.md are not yet built',
 'C10': 'presence/shape of stack maps in emitted artifacts is a whole-pipeline property; the CodeSpan/CodeMap clause planned in DESIGN.md is not yet built',
 'C11': 'Maranget usefulness over closures/trait objects/HashMap and the global Sema; needs an inductive value semantics as specification',
 'C12': 'termination-detection protocol: safety under interleavings plus liveness; same tool limits as C04',
 'C13': 'behaviour of emitted prologues and size computations at run time against the OS stack; a contract on an emitter says which bytes are produced, not what they compute',
 'C14': 'content of trap reports is a function of per-program location tables and an unsafe frame walk; whole-pipeline statement',
 'C15': '2-run hyperproperty over processes, hash seeds, scheduling and the linker; bootstrap fixed point is about a Dora program',
 'C16': 'the parser event-accounting clause planned in DESIGN.md is not yet built; lexer partition, tree builder and re-parse equality are out of reach',
 'C17': 'token preservation/idempotence of ~3 kLOC of AST->Doc builders over all syntax x comment placements x widths; specification needs the parser',
 'C18': 'claimed later in this build (Verus contracts on bytecode writer/reader); not yet registered',
 'C20': 'the position round-trip clause planned in DESIGN.md is not yet built; symbol ranges need the parser',
}

def main():
    ids = [json.loads(l)['id'] for l in open(os.path.join(V, 'properties.jsonl'))]
    m = dict(
        version=1,
        setup_cmd='true',
        hooks=dict(guard='dinfuehr_dora_verif', enable='no hooks are needed: checks read /repo sources and link its crates unchanged',
                   baseline_off_cmd='cd /repo && cargo test --workspace --no-fail-fast --offline', source_commits=[], add_only=True),
        engines=[
            dict(name='verus', path='tools/vx.py', serves_properties=sorted(p for p, c in CLAIMED.items() if 'verus' in c['engine']),
                 kind_free_text='Verus 0.2026.09.13 on functions cut verbatim from the working tree + contract overlays (contracts/*.vspec)'),
            dict(name='kani', path='tools/kx.py', serves_properties=sorted(p for p, c in CLAIMED.items() if 'kani' in c['engine']),
                 kind_free_text='Kani 0.68 / CBMC 6.11 loop-free full-domain harnesses on the real crates'),
        ],
        checks=[CLAIMED[p] for p in ids if p in CLAIMED],
        not_applicable=[dict(property_id=p, reason=NA_REASONS[p]) for p in ids if p not in CLAIMED],
        notes='Technique family: contract-based deductive verification of the real code (Verus, Kani). Exit 2 of a check means undecided (tool limit / lost anchor), never an alarm. Every check also EXECUTES the real functions (linked crates, or items cut verbatim) on generated inputs through a replay runner: that part is sampled, labelled as such in the evidence, never counted in obligations/discharged, and is what turns a failed obligation into a concrete failing input. Genuine defects found and repaired (fix: commits in /repo) and the open findings are listed in known_findings.json and DESIGN.md 9.3. See DESIGN.md.',
    )
    with open(os.path.join(V, 'MANIFEST.json'), 'w') as f:
        json.dump(m, f, indent=1)
        f.write('\n')

if __name__ == '__main__':
    main()
