#!/usr/bin/env python3
"""vx — Verus route: cut real items out of the working tree, merge a contract
overlay (.vspec), run `verus`, classify the result.

Nothing in here proves a model: the function bodies in the generated file are
the text of /repo's working tree, changed only by the rewrites declared in the
overlay (each one is counted and listed in the evidence).
"""
import json
import os
import re
import subprocess
import sys
import time
import hashlib

sys.path.insert(0, os.path.dirname(os.path.abspath(__file__)))
from rustcut import Source, CutError, code_mask, match_close  # noqa: E402

VERIF = os.path.dirname(os.path.dirname(os.path.abspath(__file__)))


def repo_root():
    return os.environ.get('VERIF_REPO', '/repo')


class Undecided(Exception):
    """Tool limit / lost anchor / unsupported construct: exit 2, never an alarm."""


# ----------------------------------------------------------------------------
# overlay parsing
# ----------------------------------------------------------------------------

class Overlay:
    def __init__(self, path, extra_text=None):
        self.extra_text = extra_text
        self.path = path
        self.unit = os.path.basename(path).rsplit('.', 1)[0]
        self.property = None
        self.source = None
        self.cuts = []        # (source, spec-line)
        self.rewrites = []    # dict(id, scope, count, regex, pat, rep)
        self.builtins = []    # (name, scope)
        self.prelude = []
        self.postlude = []
        self.specs = {}       # fn -> dict(ret, text)
        self.loops = {}       # (fn, k) -> text
        self.ghosts = []      # dict(fn, where, nth, anchor, text)
        self.rlimit = None
        self.extra_args = []
        self.crate_features = []
        self.external_impls = []   # impl headers kept verbatim but outside verification (their contracts are established elsewhere)
        self.attrs = []       # (fn, attribute) — verifier attributes such as #[verifier::spinoff_prover]
        self.externals = []   # fns kept with their real body but marked external_body (assumed contract)
        self._parse()

    def _parse(self):
        with open(self.path, encoding='utf-8') as f:
            lines = f.read().split('\n')
        if self.extra_text:
            lines += ['@@end'] + self.extra_text.split('\n')
        i = 0
        cur = None
        buf = []

        def flush():
            nonlocal cur, buf
            if cur is None:
                return
            kind, args = cur
            text = '\n'.join(buf)
            if kind == 'cut':
                src = self.source
                if args and args[0] == 'from':
                    src = args[1]
                for ln in buf:
                    ln = ln.split('#')[0].strip() if not ln.strip().startswith('impl') else ln.strip()
                    if ln:
                        self.cuts.append((src, ln))
            elif kind == 'prelude':
                self.prelude.append(text)
            elif kind == 'postlude':
                self.postlude.append(text)
            elif kind == 'spec':
                ret = 'ret'
                for a in args[1:]:
                    if a.startswith('ret='):
                        ret = a[4:]
                self.specs[args[0]] = dict(ret=ret, text=text)
            elif kind == 'loop':
                self.loops[(args[0], int(args[1]))] = text
            elif kind == 'ghost':
                if args[1] in ('loop-start', 'loop-end', 'loop-before', 'fn-start', 'fn-end'):
                    pat, rep = '<%s>' % args[1], text
                else:
                    pat, rep = self._split3(buf)
                nth = 0
                for a in args[2:]:
                    if a.startswith('nth='):
                        nth = int(a[4:])
                self.ghosts.append(dict(fn=args[0], where=args[1], nth=nth, anchor=pat, text=rep))
            elif kind == 'rewrite':
                pat, rep = self._split3(buf)
                d = dict(id=args[0], scope='all', count='1', regex=False, pat=pat, rep=rep)
                for a in args[1:]:
                    if a.startswith('fn=') or a.startswith('item='):
                        d['scope'] = a.split('=', 1)[1]
                    elif a.startswith('count='):
                        d['count'] = a[6:]
                    elif a == 'regex':
                        d['regex'] = True
                self.rewrites.append(d)
            cur = None
            buf = []

        for ln in lines:
            if ln.startswith('@@'):
                flush()
                parts = ln[2:].split()
                if not parts:
                    continue
                k = parts[0]
                if k == 'unit':
                    self.unit = parts[1]
                elif k == 'property':
                    self.property = parts[1]
                elif k == 'source':
                    self.source = parts[1]
                elif k == 'rlimit':
                    self.rlimit = parts[1]
                elif k == 'external':
                    self.externals.append(parts[1])
                elif k == 'feature':
                    self.crate_features.append(parts[1])
                elif k == 'external-impl':
                    self.external_impls.append(' '.join(parts[1:]))
                elif k == 'attr':
                    self.attrs.append((parts[1], ' '.join(parts[2:])))
                elif k == 'verus-arg':
                    self.extra_args += parts[1:]
                elif k == 'builtin':
                    scope = 'all'
                    for a in parts[2:]:
                        if a.startswith('fn='):
                            scope = a[3:]
                    self.builtins.append((parts[1], scope))
                elif k in ('cut', 'prelude', 'postlude', 'spec', 'loop', 'ghost', 'rewrite'):
                    cur = (k, parts[1:])
                    buf = []
                elif k == 'end':
                    pass
                else:
                    raise Undecided('overlay %s: unknown directive @@%s' % (self.path, k))
            else:
                if cur is not None:
                    buf.append(ln)
        flush()

    @staticmethod
    def _split3(buf):
        text = '\n'.join(buf)
        m = re.search(r'^<<<\n(.*?)\n===\n(.*?)\n?>>>\s*$', text, re.S | re.M)
        if not m:
            raise Undecided('overlay: malformed <<< === >>> block: ' + text[:80])
        return m.group(1), m.group(2)


# ----------------------------------------------------------------------------
# text transforms
# ----------------------------------------------------------------------------

def ws_regex(lit):
    toks = lit.split()
    return r'\s*'.join(re.escape(t) for t in toks)


def strip_n1(text):
    """N1: visibility, attributes, doc comments, derives."""
    n = 0
    out = []
    for ln in text.split('\n'):
        s = ln.strip()
        if s.startswith('///') or s.startswith('//!'):
            n += 1
            continue
        if re.match(r'#\[(inline|allow|cfg_attr|must_use|cold|repr\(u8\)|rustfmt)', s) and s.endswith(']'):
            if not s.startswith('#[repr'):
                n += 1
                continue
        m = re.match(r'(\s*)#\[derive\((.*)\)\]\s*$', ln)
        if m:
            keep = [d.strip() for d in m.group(2).split(',') if d.strip() in ('Copy', 'Clone', 'PartialEq', 'Eq')]
            n += 1
            if keep:
                out.append('%s#[derive(%s)]' % (m.group(1), ', '.join(keep)))
            continue
        out.append(ln)
    text = '\n'.join(out)
    text, k = re.subn(r'\bpub\s*\((?:crate|super|in [^)]*)\)\s+', '', text)
    n += k
    text, k = re.subn(r'\bpub\s+(?=(?:const\s+|unsafe\s+)?(?:fn|struct|static|type|mod|trait)\b)', '', text)
    n += k
    # pub on struct fields
    text, k = re.subn(r'(?m)^(\s*)pub\s+(?=[a-z_][A-Za-z0-9_]*\s*:)', r'\1', text)
    n += k
    return text, n


def _find_macro_calls(text, name):
    """yield (start, open_paren, close_paren) for `name!(` at code positions."""
    mask = code_mask(text)
    for m in re.finditer(r'\b' + re.escape(name) + r'!\s*\(', text):
        if not mask[m.start()]:
            continue
        op = m.end() - 1
        cl = match_close(text, mask, op, '(', ')')
        yield m.start(), op, cl


def _split_top_commas(s):
    mask = code_mask(s)
    parts = []
    depth = 0
    last = 0
    for i, c in enumerate(s):
        if not mask[i]:
            continue
        if c in '([{':
            depth += 1
        elif c in ')]}':
            depth -= 1
        elif c == ',' and depth == 0:
            parts.append(s[last:i])
            last = i + 1
    parts.append(s[last:])
    return parts


def builtin_assert_to_refuse(text):
    """N5: assert!(c, ..) -> if !(c) { vx_refuse(); }  (and assert_eq!/assert_ne!)."""
    n = 0
    for name, fmt in (('assert_eq', '!(({0}) == ({1}))'), ('assert_ne', '!(({0}) != ({1}))'), ('assert', '!({0})')):
        while True:
            found = None
            for st, op, cl in _find_macro_calls(text, name):
                # skip debug_assert
                if text[max(0, st - 6):st] == 'debug_':
                    continue
                found = (st, op, cl)
                break
            if not found:
                break
            st, op, cl = found
            args = _split_top_commas(text[op + 1:cl])
            if name == 'assert':
                cond = fmt.format(args[0].strip())
            else:
                cond = fmt.format(args[0].strip(), args[1].strip())
            end = cl + 1
            # swallow trailing ';'
            m = re.match(r'\s*;', text[end:])
            if m:
                end += m.end()
            text = text[:st] + 'if %s { vx_refuse(); }' % cond + text[end:]
            n += 1
    return text, n


def builtin_unreachable_to_refuse(text):
    n = 0
    for name in ('unreachable', 'panic', 'unimplemented'):
        while True:
            found = None
            for st, op, cl in _find_macro_calls(text, name):
                found = (st, op, cl)
                break
            if not found:
                break
            st, op, cl = found
            stmt = re.match(r'\s*;', text[cl + 1:]) is not None
            text = text[:st] + ('vx_refuse()' if stmt else 'vx_refuse_val()') + text[cl + 1:]
            n += 1
    return text, n


def builtin_debug_assert_to_proof(text):
    """debug_assert!(c) -> proof { assert(c); }  — kept as an obligation, not a refusal."""
    n = 0
    while True:
        found = None
        for st, op, cl in _find_macro_calls(text, 'debug_assert'):
            found = (st, op, cl)
            break
        if not found:
            break
        st, op, cl = found
        args = _split_top_commas(text[op + 1:cl])
        end = cl + 1
        m = re.match(r'\s*;', text[end:])
        if m:
            end += m.end()
        text = text[:st] + 'proof { assert(%s); }' % args[0].strip() + text[end:]
        n += 1
    return text, n


def builtin_dowhile(text):
    """N3: while { S; c } {}  ->  loop { S; if !(c) { break; } }"""
    n = 0
    while True:
        mask = code_mask(text)
        found = None
        for m in re.finditer(r'\bwhile\s*\{', text):
            if mask[m.start()]:
                found = m
                break
        if not found:
            break
        op = found.end() - 1
        cl = match_close(text, mask, op)
        m2 = re.match(r'\s*\{\s*\}', text[cl + 1:])
        if not m2:
            raise Undecided('N3: while-block without empty body')
        inner = text[op + 1:cl].rstrip()
        # last expression = condition (after the last top-level ';')
        imask = code_mask(inner)
        depth = 0
        last_semi = -1
        for i, c in enumerate(inner):
            if not imask[i]:
                continue
            if c in '([{':
                depth += 1
            elif c in ')]}':
                depth -= 1
            elif c == ';' and depth == 0:
                last_semi = i
        stmts = inner[:last_semi + 1]
        cond = inner[last_semi + 1:].strip()
        text = text[:found.start()] + 'loop {' + stmts + '\n if !(' + cond + ') { break; }\n}' + text[cl + 1 + m2.end():]
        n += 1
    return text, n


def builtin_structural(text):
    """N1: `#[derive(.., PartialEq, Eq, ..)]` additionally gets Verus' `Structural` marker: the derived `==`
    IS structural equality, which is what the marker states."""
    n = 0

    def rep(m):
        nonlocal n
        ds = [d.strip() for d in m.group(2).split(',')]
        if 'PartialEq' in ds and 'Eq' in ds and 'Structural' not in ds:
            n += 1
            return '%s#[derive(%s, Structural)]' % (m.group(1), ', '.join(ds))
        return m.group(0)
    text = re.sub(r'(?m)^(\s*)#\[derive\((.*)\)\]\s*$', rep, text)
    return text, n


def builtin_unreachable_to_obligation(text):
    """`unreachable!()` marking an internal invariant (not an operand refusal): must be PROVED unreachable."""
    n = 0
    while True:
        found = None
        for st, op, cl in _find_macro_calls(text, 'unreachable'):
            found = (st, op, cl)
            break
        if not found:
            break
        st, op, cl = found
        text = text[:st] + 'vx_unreachable()' + text[cl + 1:]
        n += 1
    return text, n


BUILTINS = {
    'structural': ('N1', builtin_structural),
    'unreachable_to_obligation': ('N5', builtin_unreachable_to_obligation),
    'assert_to_refuse': ('N5', builtin_assert_to_refuse),
    'unreachable_to_refuse': ('N5', builtin_unreachable_to_refuse),
    'debug_assert_to_proof': ('N5', builtin_debug_assert_to_proof),
    'dowhile': ('N3', builtin_dowhile),
}


def loop_headers(text):
    """[(kw_pos, body_open_pos)] of while/for/loop in textual order (code positions only)."""
    mask = code_mask(text)
    out = []
    for m in re.finditer(r'\b(while|for|loop)\b', text):
        if not mask[m.start()]:
            continue
        kw = m.group(1)
        j = m.end()
        if kw == 'for':
            # `for<'a>` HRTB or `impl X for Y` are not loops
            rest = text[j:j + 200]
            if not re.match(r'\s+[^;{]*?\bin\b', rest, re.S):
                continue
        pd = 0
        n = len(text)
        ok = False
        while j < n:
            if mask[j]:
                c = text[j]
                if c in '([':
                    pd += 1
                elif c in ')]':
                    pd -= 1
                elif c == '{' and pd == 0:
                    ok = True
                    break
                elif c == ';' and pd == 0:
                    break
            j += 1
        if ok:
            out.append((m.start(), j))
    return out


GHOST_STMT = re.compile(r'\s*(proof\s*\{|let\s+ghost\s|let\s+tracked\s|assert\s*\(|assert\s+forall|assert\s+)')


def check_ghost_only(text, where):
    """Overlay text inserted inside executable bodies must be ghost: proof blocks,
    `let ghost`, `assert`. Anything else is refused."""
    mask = code_mask(text)
    i = 0
    n = len(text)
    while i < n:
        while i < n and text[i].isspace():
            i += 1
        if i >= n:
            break
        if not mask[i]:  # comment
            j = text.find('\n', i)
            i = n if j < 0 else j + 1
            continue
        m = GHOST_STMT.match(text, i)
        if not m:
            raise Undecided('overlay %s: non-ghost statement inserted: %r' % (where, text[i:i + 60]))
        # skip to end of statement: matching brace for proof{}, or ';' at depth 0
        j = i
        depth = 0
        while j < n:
            if mask[j]:
                c = text[j]
                if c in '([{':
                    depth += 1
                elif c in ')]}':
                    depth -= 1
                    if depth == 0 and c == '}' and text[i:].lstrip().startswith('proof'):
                        j += 1
                        break
                    if depth == 0 and c == '}':
                        # assert ... by { }  — may be followed by ';'
                        k = j + 1
                        while k < n and text[k].isspace():
                            k += 1
                        if k < n and text[k] == ';':
                            j = k + 1
                        else:
                            j += 1
                        break
                elif c == ';' and depth == 0:
                    j += 1
                    break
            j += 1
        i = j


# ----------------------------------------------------------------------------
# build
# ----------------------------------------------------------------------------

class Built:
    def __init__(self):
        self.text = ''
        self.fn_ranges = []     # (name, first_line, last_line, origin "file:line")
        self.rewrites_applied = []
        self.functions = []     # names of exec fns under contract (have a spec)
        self.functions_cut = []
        self.sources = {}


def _apply_scoped(ov, key, text, log):
    # N1 always
    text, k = strip_n1(text)
    if k:
        log.append(dict(rule='N1', item=key, count=k))
    for rw in ov.rewrites:
        if rw['scope'] != 'all' and rw['scope'] != key:
            continue
        rx = rw['pat'] if rw['regex'] else ws_regex(rw['pat'])
        rep = rw['rep']
        if rw['regex']:
            new, k = re.subn(rx, rep, text, flags=re.S)
        else:
            new, k = re.subn(rx, lambda m: rep, text, flags=re.S)
        want = rw['count']
        if rw['scope'] == 'all':
            # counted globally later
            rw.setdefault('_seen', 0)
            rw['_seen'] += k
        else:
            if want == '+':
                if k < 1:
                    raise Undecided('rewrite %s in %s: anchor lost (%r)' % (rw['id'], key, rw['pat'][:60]))
            elif want != '*' and k != int(want):
                raise Undecided('rewrite %s in %s: expected %s matches, got %d (%r)' % (rw['id'], key, want, k, rw['pat'][:60]))
        if k:
            log.append(dict(rule=rw['id'], item=key, count=k, pattern=rw['pat'][:120], replacement=rep[:160]))
        text = new
    for name, scope in ov.builtins:
        if scope != 'all' and scope != key:
            continue
        rule, fn = BUILTINS[name]
        text, k = fn(text)
        if k:
            log.append(dict(rule=rule, item=key, count=k, builtin=name))
    return text


def _decorate_fn(ov, key, text, log):
    """Insert ghost code, loop specs and the function contract into fn text."""
    for g in ov.ghosts:
        if g['fn'] != key:
            continue
        check_ghost_only(g['text'], '%s ghost@%r' % (key, g['anchor'][:40]))
        if g['where'] in ('loop-start', 'loop-end', 'loop-before', 'fn-start', 'fn-end'):
            # structural anchor: `@@ghost f loop-end nth=k` — robust against edits of the statements themselves
            mask = code_mask(text)
            if g['where'] == 'fn-start':
                m0 = re.search(r'\bfn\s+[A-Za-z_][A-Za-z0-9_]*', text)
                j = m0.end()
                pd = 0
                while not (mask[j] and text[j] == '{' and pd == 0):
                    if mask[j] and text[j] in '([':
                        pd += 1
                    elif mask[j] and text[j] in ')]':
                        pd -= 1
                    j += 1
                text = text[:j + 1] + '\n' + g['text'] + '\n' + text[j + 1:]
                continue
            if g['where'] == 'fn-end':
                # before the closing brace of the body (functions returning unit)
                j = len(text) - 1
                while not (mask[j] and text[j] == '}'):
                    j -= 1
                text = text[:j] + '\n' + g['text'] + '\n' + text[j:]
                continue
            loops = loop_headers(text)
            if g['nth'] >= len(loops):
                raise Undecided('ghost loop anchor lost in %s: loop %d' % (key, g['nth']))
            bo = loops[g['nth']][1]
            if g['where'] == 'loop-before':
                # directly before the statement that is the k-th loop (setup ghosts that name locals defined above the loop)
                kw = loops[g['nth']][0]
                ls = text.rfind('\n', 0, kw) + 1
                text = text[:ls] + g['text'] + '\n' + text[ls:]
                continue
            if g['where'] == 'loop-start':
                text = text[:bo + 1] + '\n' + g['text'] + '\n' + text[bo + 1:]
            else:
                cl = match_close(text, mask, bo)
                text = text[:cl] + '\n' + g['text'] + '\n' + text[cl:]
            continue
        rx = ws_regex(g['anchor'])
        ms = list(re.finditer(rx, text, re.S))
        if len(ms) <= g['nth']:
            raise Undecided('ghost anchor lost in %s: %r' % (key, g['anchor'][:80]))
        m = ms[g['nth']]
        if g['where'] == 'before':
            text = text[:m.start()] + g['text'] + '\n' + text[m.start():]
        else:
            text = text[:m.end()] + '\n' + g['text'] + '\n' + text[m.end():]
    # loops: from last to first
    loops = loop_headers(text)
    wanted = sorted([k for (f, k) in ov.loops if f == key], reverse=True)
    for k in wanted:
        if k >= len(loops):
            raise Undecided('loop %d of %s not found (function has %d loops)' % (k, key, len(loops)))
        _, bo = loops[k]
        text = text[:bo] + '\n' + ov.loops[(key, k)] + '\n' + text[bo:]
    if key in ov.externals:
        m0 = re.search(r'(?m)^(\s*)((?:const\s+|unsafe\s+)?fn\s)', text)
        text = text[:m0.start()] + m0.group(1) + '#[verifier::external_body]\n' + text[m0.start():]
        log.append(dict(rule='N7', item=key, count=1, note='function kept with its real body but marked external_body: its contract is ASSUMED'))
    for (f, attr) in ov.attrs:
        if f == key:
            if not re.match(r'#\[verifier::(spinoff_prover|rlimit\(\d+\)|loop_isolation\((true|false)\))\]$', attr):
                raise Undecided('overlay: attribute not allowed: ' + attr)
            m0 = re.search(r'(?m)^(\s*)((?:const\s+|unsafe\s+)?fn\s)', text)
            text = text[:m0.start()] + m0.group(1) + attr + '\n' + text[m0.start():]
    # function contract
    if key in ov.specs:
        sp = ov.specs[key]
        mask = code_mask(text)
        m = re.search(r'\bfn\s+[A-Za-z_][A-Za-z0-9_]*', text)
        j = m.end()
        pd = 0
        while True:
            if mask[j]:
                c = text[j]
                if c in '([':
                    pd += 1
                elif c in ')]':
                    pd -= 1
                elif c == '{' and pd == 0:
                    break
            j += 1
        head = text[:j]
        # name the return value
        mm = re.search(r'->\s*(.+?)\s*(where\b.*)?$', head, re.S)
        if mm and sp['ret'] != '-':
            ty = mm.group(1).strip()
            if not ty.startswith('(' + sp['ret'] + ':') and ty != '!':
                head = head[:mm.start()] + '-> (%s: %s) %s' % (sp['ret'], ty, mm.group(2) or '')
        text = head.rstrip() + '\n' + sp['text'] + '\n' + text[j:]
    return text


def build(ov):
    b = Built()
    root = repo_root()
    srcs = {}
    items = []  # (key, text, origin)
    for (src_rel, spec) in ov.cuts:
        path = os.path.join(root, src_rel)
        if path not in srcs:
            if not os.path.exists(path):
                raise Undecided('source file lost: ' + src_rel)
            srcs[path] = Source(path)
            with open(path, 'rb') as f:
                b.sources[src_rel] = hashlib.sha256(f.read()).hexdigest()[:16]
        S = srcs[path]
        try:
            if spec.startswith('implall'):
                hdr = 'impl' + spec[len('implall'):].rstrip()
                blocks = S.find_impls(hdr)
                if not blocks:
                    raise CutError('impl block not found: ' + hdr)
                for bl in blocks:
                    items.append((hdr, S.src[bl['start']:bl['end']], '%s:%d' % (src_rel, bl['line']), 'impl'))
            elif spec.startswith('constprefix '):
                pref = spec.split()[1]
                names = sorted(set(re.findall(r'\bconst\s+(' + re.escape(pref) + r'[A-Za-z0-9_]*)\s*:', S.src)), key=lambda n: S.src.index('const ' + n))
                if not names:
                    raise CutError('no const with prefix ' + pref)
                for nm in names:
                    d = S.cut_item('const', nm)
                    items.append((nm, d['text'], '%s:%d' % (src_rel, d['line']), 'const'))
            elif spec.startswith('impl ') or spec.startswith('impl<'):
                hdr, _, names = spec.partition(' :: ')
                hdr = hdr.strip()
                names = names.split()
                # `impl<..> X<..> where .. => impl X`: the methods are re-homed under another impl header (N8: the generic
                # parameters / bounds the extracted methods do not depend on are instantiated by the overlay's stand-in type)
                emit_hdr = None
                if ' => ' in hdr:
                    hdr, _, emit_hdr = hdr.partition(' => ')
                    hdr, emit_hdr = hdr.strip(), emit_hdr.strip()
                blocks = S.find_impls(hdr)
                if not blocks:
                    raise CutError('impl block not found: ' + hdr)
                if emit_hdr:
                    b.rewrites_applied.append(dict(rule='N8', item=hdr, count=1, pattern=hdr, replacement=emit_hdr,
                                                   note='impl header replaced: methods re-homed under the stand-in type of the overlay'))
                    hdr = emit_hdr
                ty = re.sub(r'^impl(<[^>]*>)?\s*', '', hdr)
                ty = ty.split(' for ')[-1]
                ty = re.sub(r'<.*$', '', ty).strip()
                parts = []
                for nm in names:
                    got = None
                    for bl in blocks:
                        try:
                            d = S.cut_fn(nm, bl['open'] + 1, bl['end'] - 1, depth=S.depth[bl['open']] + 1)
                            got = d
                            break
                        except CutError:
                            continue
                    if not got:
                        raise CutError('method %s not found in %s' % (nm, hdr))
                    parts.append(('%s::%s' % (ty, nm), got['text'], '%s:%d' % (src_rel, got['line'])))
                items.append((hdr, parts, None, 'implsel'))
            else:
                kind, name = spec.split()[:2]
                if kind == 'fn':
                    d = S.cut_fn(name, depth=0)
                else:
                    d = S.cut_item(kind, name)
                items.append((name, d['text'], '%s:%d' % (src_rel, d['line']), kind))
        except CutError as e:
            raise Undecided('extraction: %s' % e)

    out = []
    out.append('// GENERATED by vx from unit %s — do not edit. Bodies are cut from the working tree.' % ov.unit)
    out.append('#![allow(unused)]')
    if ov.crate_features:
        out.append('#![feature(%s)]' % ', '.join(ov.crate_features))
    out.append('use vstd::prelude::*;')
    out.append('verus! {')
    out.append('#[verifier::external_body]\nfn vx_refuse() ensures false { panic!() }  // N5: a panic never returns')
    out.append('#[verifier::external_body]\nfn vx_refuse_val<T>() -> (r: T) ensures false { panic!() }  // N5, expression position')
    out.append('#[verifier::external_body]\nfn vx_unreachable<T>() -> (r: T) requires false { unreachable!() }  // N5: must be proved unreachable')
    out.extend(ov.prelude)
    log = b.rewrites_applied

    def cur_line():
        return '\n'.join(out).count('\n') + 2

    for key, text, origin, kind in items:
        if kind == 'implsel':
            out.append(key + ' {')
            for (fkey, ftext, forigin) in text:
                t = _apply_scoped(ov, fkey, ftext, log)
                t = _decorate_fn(ov, fkey, t, log)
                l0 = cur_line()
                out.append(t)
                b.fn_ranges.append((fkey, l0, l0 + t.count('\n'), forigin))
                b.functions_cut.append(fkey)
            out.append('}')
        elif kind == 'fn':
            t = _apply_scoped(ov, key, text, log)
            t = _decorate_fn(ov, key, t, log)
            l0 = cur_line()
            out.append(t)
            b.fn_ranges.append((key, l0, l0 + t.count('\n'), origin))
            b.functions_cut.append(key)
        else:
            t = _apply_scoped(ov, key, text, log)
            if kind == 'impl' and key in ov.external_impls:
                t = '#[verifier::external]\n' + t
                log.append(dict(rule='N7', item=key, count=1, note='impl block kept verbatim but external to verification'))
            l0 = cur_line()
            out.append(t)
            b.fn_ranges.append((key, l0, l0 + t.count('\n'), origin))
    for rw in ov.rewrites:
        if rw['scope'] == 'all':
            k = rw.get('_seen', 0)
            want = rw['count']
            if want == '+' and k < 1 or (want not in ('+', '*') and k != int(want)):
                raise Undecided('rewrite %s (all): expected %s matches, got %d (%r)' % (rw['id'], want, k, rw['pat'][:60]))
    l0 = cur_line()
    out.extend(ov.postlude)
    out.append('} // verus!')
    out.append('fn main() {}')
    b.text = '\n'.join(out) + '\n'
    # ranges for prelude/postlude fns (lemmas, specs) by scanning generated text
    b.all_fn_ranges = _scan_fn_ranges(b.text)
    b.functions = [k for k in b.functions_cut if k in ov.specs]
    for k in ov.specs:
        if k not in b.functions_cut:
            raise Undecided('overlay has a contract for %s which was not cut' % k)
    for (f, _k) in ov.loops:
        if f not in b.functions_cut:
            raise Undecided('overlay has a loop contract for %s which was not cut' % f)
    return b


def _gen_fn_extent(S, pos):
    """In GENERATED text a fn header may contain braces (`match r { .. }`, `if c { a } else { b }` inside
    requires/ensures). The body is the last top-level brace block of the item: walk over brace blocks and
    continue while what follows a block still belongs to the spec header."""
    src, mask = S.src, S.mask
    n = len(src)
    j = pos
    pd = 0
    start = src.rfind('\n', 0, pos) + 1
    while True:
        while j < n:
            if mask[j]:
                c = src[j]
                if c in '([':
                    pd += 1
                elif c in ')]':
                    pd -= 1
                elif c == '{' and pd == 0:
                    break
                elif c == ';' and pd == 0:
                    return start, j + 1, None
            j += 1
        if j >= n:
            raise CutError('no body')
        close = match_close(src, mask, j)
        k = close + 1
        while k < n and (src[k].isspace() or not mask[k]):
            k += 1
        nxt = src[k:k + 4]
        if k < n and (src[k] in ',&|=.+-<>?)*/' or nxt.startswith('else') or nxt.startswith('as ')):
            j = k
            continue
        return start, close + 1, j


def _scan_fn_ranges(text):
    S = Source('<generated>', text)
    res = []
    for m in re.finditer(r'\bfn\s+([A-Za-z_][A-Za-z0-9_]*)', text):
        pos = m.start()
        if not S.mask[pos]:
            continue
        try:
            st, en, body = _gen_fn_extent(S, pos)
        except CutError:
            continue
        res.append((m.group(1), text.count('\n', 0, pos) + 1, text.count('\n', 0, en) + 1, body))
    return res


# ----------------------------------------------------------------------------
# obligations (syntactic census of the generated file)
# ----------------------------------------------------------------------------

def _count_clauses(block):
    """count top-level comma-separated clauses in a spec block text."""
    mask = code_mask(block)
    depth = 0
    inpipe = False
    n = 0
    cur = ''
    i = 0
    L = len(block)
    while i < L:
        c = block[i]
        if mask[i]:
            if c in '([{':
                depth += 1
            elif c in ')]}':
                depth -= 1
            elif c == '|' and depth == 0:
                # closure parameter list of forall/exists/choose
                if inpipe:
                    inpipe = False
                elif re.search(r'(forall|exists|choose)\s*$', cur):
                    inpipe = True
            elif c == ',' and depth == 0 and not inpipe:
                if cur.strip():
                    n += 1
                cur = ''
                i += 1
                continue
        cur += c
        i += 1
    if cur.strip():
        n += 1
    return n


SPEC_KW = r'\b(requires|ensures|invariant_except_break|invariant|decreases|recommends)\b'


def census(text):
    """Syntactic obligation census of a generated verus file:
    per function: ensures clauses, loop invariant clauses (x2: entry + preservation),
    decreases, asserts, call-site preconditions are lumped in 'body'.
    Returns dict fn -> dict(kind->count) and the total."""
    S = Source('<generated>', text)
    per = {}
    total = 0
    for (name, l0, l1, body_open) in _scan_fn_ranges(text):
        if body_open is None:
            continue
        # header = from fn to body open; body = after
        start = None
        # locate header start offset: find line l0 offset
        off = 0
        for _ in range(l0 - 1):
            off = text.index('\n', off) + 1
        header = text[off:body_open]
        close = match_close(text, S.mask, body_open)
        body = text[body_open:close + 1]
        is_spec = re.search(r'\b(spec|open spec|closed spec)\s+fn\b|\bspec\s*(\(checked\))?\s*fn\b', header) is not None
        is_ext = 'external_body' in text[max(0, off - 200):off + len(header)] and re.search(r'external_body\]\s*(\n\s*)*(pub\s+)?(proof\s+|exec\s+)?fn\s+' + re.escape(name) + r'\b', text[max(0, off - 200):off + len(header)]) is not None
        d = {}
        if is_spec:
            continue
        # header clauses
        hm = code_mask(header)
        kws = [(m.start(), m.group(1)) for m in re.finditer(SPEC_KW, header) if hm[m.start()]]
        for idx, (p, kw) in enumerate(kws):
            e = kws[idx + 1][0] if idx + 1 < len(kws) else len(header)
            cnt = _count_clauses(header[p + len(kw):e])
            if kw == 'ensures' and not is_ext:
                d['post'] = d.get('post', 0) + cnt
            elif kw == 'decreases' and not is_ext:
                d['decreases'] = d.get('decreases', 0) + 1
        if is_ext:
            per[name] = dict(assumed=1)
            continue
        # loop clauses in body
        bm = code_mask(body)
        kws = [(m.start(), m.group(1)) for m in re.finditer(SPEC_KW, body) if bm[m.start()]]
        for idx, (p, kw) in enumerate(kws):
            # clause block ends at next keyword or at the '{' opening the loop body (depth 0 relative)
            j = p + len(kw)
            depth = 0
            inpipe = False
            while j < len(body):
                if bm[j]:
                    c = body[j]
                    if c in '([':
                        depth += 1
                    elif c in ')]':
                        depth -= 1
                    elif c == '{' and depth == 0:
                        # could be a block expression inside a clause; treat as end only if
                        # previous non-space char is ',' or clause keyword boundary
                        k = j - 1
                        while k >= 0 and body[k].isspace():
                            k -= 1
                        if body[k] == ',' or re.search(r'[A-Za-z0-9_)\]]$', body[:k + 1]):
                            break
                    if idx + 1 < len(kws) and j == kws[idx + 1][0]:
                        break
                j += 1
            cnt = _count_clauses(body[p + len(kw):j])
            if kw in ('invariant', 'invariant_except_break'):
                d['inv'] = d.get('inv', 0) + 2 * cnt   # established on entry + preserved
            elif kw == 'ensures':
                d['loop_post'] = d.get('loop_post', 0) + cnt
            elif kw == 'decreases':
                d['decreases'] = d.get('decreases', 0) + 1
        d['assert'] = len([m for m in re.finditer(r'\bassert\s*(\(|forall)', body) if bm[m.start()]])
        d['body'] = 1   # overflow / index / callee-precondition / exhaustiveness obligations of the body, lumped
        per[name] = d
        total += sum(d.values())
    return per, total


# ----------------------------------------------------------------------------
# run verus
# ----------------------------------------------------------------------------

ERR_RE = re.compile(r'^(error|warning)(?:\[(E\d+)\])?: (.*)$')
LOC_RE = re.compile(r'^\s*--> (.*?):(\d+):(\d+)')


def parse_diagnostics(stderr):
    diags = []
    cur = None
    for ln in stderr.split('\n'):
        m = ERR_RE.match(ln)
        if m:
            cur = dict(level=m.group(1), code=m.group(2), msg=m.group(3), line=None, notes=[], raw=[ln])
            diags.append(cur)
            continue
        if cur is None:
            continue
        cur['raw'].append(ln)
        m = LOC_RE.match(ln)
        if m and cur['line'] is None:
            cur['line'] = int(m.group(2))
            cur['file'] = m.group(1)
    return diags


VERIF_MSGS = (
    'postcondition not satisfied', 'precondition not satisfied', 'assertion failed',
    'invariant not satisfied', 'decreases not satisfied', 'possible arithmetic underflow/overflow',
    'possible division by zero', 'possible bit shift underflow/overflow', 'loop invariant',
    'recommendation not met', 'possible', 'unreachable', 'index out of bounds',
    'could not prove termination', 'termination', 'assert_by', 'failed', 'not satisfied',
    'may panic', 'loop ensures', 'cannot show', 'constructed value may fail', 'precondition not met', 'not met',
)


def run_verus(path, rlimit=None, extra=(), timeout=1200):
    cmd = ['verus', path, '--output-json', '--time', '--multiple-errors', '200']
    if rlimit:
        cmd += ['--rlimit', str(rlimit)]
    cmd += list(extra)
    t0 = time.time()
    try:
        p = subprocess.run(cmd, stdout=subprocess.PIPE, stderr=subprocess.PIPE, text=True, timeout=timeout,
                           cwd=os.path.dirname(path))
    except subprocess.TimeoutExpired:
        raise Undecided('verus timed out after %ds on %s' % (timeout, path))
    wall = time.time() - t0
    try:
        js = json.loads(p.stdout)
    except Exception:
        raise Undecided('verus produced no JSON (exit %d): %s' % (p.returncode, p.stderr[-2000:]))
    return dict(cmd=' '.join(cmd), exit=p.returncode, json=js, stderr=p.stderr, wall=wall)


def classify(res, built):
    """-> dict(ok, failures=[...], undecided=reason|None, stats)"""
    js = res['json']
    vr = js.get('verification-results', {})
    diags = [d for d in parse_diagnostics(res['stderr']) if d['level'] == 'error']
    failures = []
    undecided = None
    lines = built.text.split('\n')
    for d in diags:
        if d['msg'].startswith('aborting due to'):
            continue
        low = d['msg'].lower()
        if d['code'] or 'not supported' in low or 'unsupported' in low or 'verus internal' in low \
                or 'resource limit' in low or 'rlimit' in low or 'cannot find' in low or 'mismatched' in low:
            undecided = 'verus could not decide: %s (generated line %s)' % (d['msg'], d['line'])
            break
        fn = None
        origin = None
        if d['line'] is not None:
            best = None
            for (name, l0, l1, _bo) in built.all_fn_ranges:
                if l0 <= d['line'] <= l1:
                    if best is None or (l1 - l0) < (best[2] - best[1]):
                        best = (name, l0, l1)
            if best:
                fn = best[0]
            for (name, l0, l1, org) in built.fn_ranges:
                if l0 <= d['line'] <= l1 and org:
                    origin = org
            src_line = lines[d['line'] - 1].strip() if 0 < d['line'] <= len(lines) else ''
        else:
            src_line = ''
        if not any(k in low for k in VERIF_MSGS):
            undecided = 'verus error not recognised as a verification failure: %s (generated line %s)' % (d['msg'], d['line'])
            break
        failures.append(dict(function=fn, kind=d['msg'], clause=src_line, gen_line=d['line'], origin=origin,
                             obligation='%s :: %s :: %s' % (fn, d['msg'], src_line),
                             verus_output='\n'.join(d['raw'])[:3000]))
    if undecided is None and vr.get('encountered-vir-error'):
        undecided = 'verus reported a VIR error: ' + res['stderr'][-1500:]
    if undecided is None and not vr.get('success') and not failures:
        undecided = 'verus failed without a recognisable verification error: ' + res['stderr'][-1500:]
    times = js.get('times-ms', {})
    smt = times.get('smt', {})
    fb = []
    for m in smt.get('smt-run-module-times', []):
        fb += m.get('function-breakdown', [])
    stats = dict(verified=vr.get('verified'), errors=vr.get('errors'), smt_ms=smt.get('total'),
                 total_ms=times.get('total'), rlimit=smt.get('rlimit-run'),
                 slowest=sorted([(f['function'], f['time']) for f in fb], key=lambda x: -x[1])[:5],
                 functions_checked=len(fb), version=js.get('verus', {}).get('version'))
    return dict(ok=(undecided is None and not failures and vr.get('success') is True),
                failures=failures, undecided=undecided, stats=stats)


TRUST_RE = re.compile(r'(assume\s*\(|admit\s*\(|#\[verifier::external_body\]|assume_specification|#\[verifier::external[a-z_]*\]|'
                      r'#\[verifier::exec_allows_no_decreases_clause\]|#\[verifier::truncate\]|#\[verifier::external_type_specification\]|'
                      r'#\[verifier::accept_recursive_types|#\[verifier::reject_recursive_types|no_decreases|--no-verify|#\[verifier::opaque\]axiom|uninterp\s+spec\s+fn|global\s+size_of)')


def trusted_scan(text):
    """Mechanical scan of the generated file for everything that is assumed rather than proved."""
    out = []
    mask = code_mask(text)
    lines = text.split('\n')
    for m in TRUST_RE.finditer(text):
        if not mask[m.start()]:
            continue
        ln = text.count('\n', 0, m.start())
        # describe by the next line(s) containing fn / the assume_specification head
        ctx = ' '.join(s.strip() for s in lines[ln:ln + 3])
        ctx = re.sub(r'\s+', ' ', ctx)[:200]
        out.append('%s @gen:%d: %s' % (m.group(1).strip(), ln + 1, ctx))
    return out


def reach_variant(built, ov):
    """Vacuity guard: same file, with `assert(false)` as the first statement of every
    function (exec or proof) that has a `requires`. Each of those asserts must FAIL."""
    text = built.text
    S = Source('<generated>', text)
    inserts = []
    for (name, l0, l1, body_open) in built.all_fn_ranges:
        if body_open is None:
            continue
        off = 0
        for _ in range(l0 - 1):
            off = text.index('\n', off) + 1
        header = text[off:body_open]
        hm = code_mask(header)
        if not any(hm[m.start()] for m in re.finditer(r'\brequires\b', header)):
            continue
        pre = text[max(0, off - 300):off + len(header)]
        if re.search(r'external_body\]\s*(\n\s*)*(pub\s+)?(proof\s+|exec\s+)?fn\s+' + re.escape(name) + r'\b', pre):
            continue
        if re.search(r'\bspec\s+fn\b', header):
            continue
        is_proof = re.search(r'\bproof\s+fn\b', header) is not None
        inserts.append((body_open + 1, name, is_proof))
    out = text
    for pos, name, is_proof in sorted(inserts, reverse=True):
        marker = ' assert(false); /*VXREACH %s*/ ' % name if is_proof else ' proof { assert(false); /*VXREACH %s*/ } ' % name
        out = out[:pos] + marker + out[pos:]
    return out, [n for (_p, n, _i) in inserts]


def verify_unit(vspec_path, workdir, check_reach=True, extra_postlude=None, extra_overlay=None):
    """Build + verify one unit. Returns a result dict; raises Undecided."""
    ov = Overlay(vspec_path, extra_overlay)
    if extra_postlude:
        ov.postlude.append(extra_postlude)
    built = build(ov)
    os.makedirs(workdir, exist_ok=True)
    gen = os.path.join(workdir, ov.unit + '.rs')
    with open(gen, 'w') as f:
        f.write(built.text)
    # main file and vacuity-guard variant are independent: run them concurrently
    import threading
    rbox = {}
    rnames = []
    rtext = None
    if check_reach:
        rtext, rnames = reach_variant(built, ov)
    if rnames:
        rpath = os.path.join(workdir, ov.unit + '__reach.rs')
        with open(rpath, 'w') as f:
            f.write(rtext)

        def _run_reach():
            try:
                rbox['res'] = run_verus(rpath, ov.rlimit, ov.extra_args)
            except Undecided as e:
                rbox['err'] = e
        th = threading.Thread(target=_run_reach)
        th.start()
    else:
        th = None
    try:
        res = run_verus(gen, ov.rlimit, ov.extra_args)
    finally:
        if th is not None:
            th.join()
    cl = classify(res, built)
    per, total = census(built.text)
    out = dict(unit=ov.unit, property=ov.property, generated=gen, cmd=res['cmd'], wall_s=round(res['wall'], 2),
               ok=cl['ok'], failures=cl['failures'], undecided=cl['undecided'], stats=cl['stats'],
               census=per, obligations=total,
               functions_under_contract=built.functions, functions_cut=built.functions_cut,
               rewrites_applied=built.rewrites_applied, trusted=trusted_scan(built.text),
               sources=built.sources, reach=None)
    if cl['undecided']:
        raise Undecided('[%s] %s' % (ov.unit, cl['undecided']))
    if cl['ok'] and rnames:
        if 'err' in rbox:
            raise rbox['err']
        rres = rbox['res']
        diags = [d for d in parse_diagnostics(rres['stderr']) if d['level'] == 'error']
        rl = rtext.split('\n')
        failed = set()
        for d in diags:
            if d['line'] and 'assertion failed' in d['msg']:
                m = re.search(r'/\*VXREACH (\w+)\*/', rl[d['line'] - 1])
                if m:
                    failed.add(m.group(1))
        vac = [n for n in rnames if n not in failed]
        out['reach'] = dict(functions_with_requires=len(rnames), reachable=len(rnames) - len(vac), vacuous=vac)
        if vac:
            raise Undecided('[%s] vacuity guard: precondition of %s is unsatisfiable (assert(false) verified)' % (ov.unit, vac))
    return out


def main():
    import argparse
    ap = argparse.ArgumentParser()
    ap.add_argument('cmd', choices=['build', 'verify'])
    ap.add_argument('vspec')
    ap.add_argument('-o', '--out', default=None)
    ap.add_argument('--workdir', default='/var/tmp/vx-work')
    ap.add_argument('--no-reach', action='store_true')
    ap.add_argument('--gen', default=None, help='generator module providing extra overlay text (e.g. gen_c18)')
    a = ap.parse_args()
    try:
        if a.cmd == 'build':
            extra = None
            if a.gen:
                import importlib
                extra, _info = importlib.import_module(a.gen).generate(repo_root())
            ov = Overlay(a.vspec, extra)
            b = build(ov)
            if a.out:
                with open(a.out, 'w') as f:
                    f.write(b.text)
            else:
                sys.stdout.write(b.text)
            return 0
        extra = None
        if a.gen:
            import importlib
            extra, _info = importlib.import_module(a.gen).generate(repo_root())
        r = verify_unit(a.vspec, a.workdir, check_reach=not a.no_reach, extra_overlay=extra)
        brief = dict(r)
        brief.pop('census')
        for f in brief['failures']:
            sys.stderr.write(f['verus_output'] + '\n')
            f.pop('verus_output')
        print(json.dumps(brief, indent=1))
        return 0 if r['ok'] else 1
    except Undecided as e:
        sys.stderr.write('UNDECIDED: %s\n' % e)
        return 2


if __name__ == '__main__':
    sys.exit(main())
