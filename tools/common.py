"""Shared driver pieces: evidence writing, known findings, replay files, runner builds."""
import json
import os
import re
import subprocess
import sys
import time
import hashlib
import shutil

VERIF = os.path.dirname(os.path.dirname(os.path.abspath(__file__)))
# build cache (generated Verus files, runner crates, their cargo target). A check that runs against another tree
# (VERIF_REPO: self-tests on scratch worktrees) gets its own cache so that it never races with a check of /repo.
_alt_repo = os.environ.get('VERIF_REPO')
if _alt_repo and os.path.realpath(_alt_repo) != os.path.realpath('/repo'):
    BUILD = os.path.join(VERIF, '.build', 'alt', re.sub(r'[^A-Za-z0-9]+', '_', _alt_repo).strip('_'))
else:
    BUILD = os.path.join(VERIF, '.build')


def repo_root():
    return os.environ.get('VERIF_REPO', '/repo')


def seed():
    try:
        return int(os.environ.get('VERIF_SEED', '1'))
    except ValueError:
        return 1


def ensure_dir(p):
    os.makedirs(p, exist_ok=True)
    return p


def scratch(name):
    """A scratch directory under /var/tmp (never /tmp), removed by the caller."""
    base = ensure_dir('/var/tmp/verif-scratch')
    d = os.path.join(base, '%s-%d' % (name, os.getpid()))
    if os.path.exists(d):
        shutil.rmtree(d)
    os.makedirs(d)
    return d


def load_known_findings():
    p = os.path.join(VERIF, 'known_findings.json')
    if not os.path.exists(p):
        return dict(open=[], fixed=[])
    with open(p) as f:
        return json.load(f)


def match_known(prop, violation, kf=None):
    """violation: dict with 'key' (stable identity: method / obligation + operand class)."""
    kf = kf or load_known_findings()
    for e in kf.get('open', []):
        if e.get('property') == prop and e.get('key') == violation.get('key'):
            return e
    return None


def out_root():
    # selftest redirects evidence/replay output so that runs on mutated scratch trees never touch /verif/evidence
    return os.environ.get('VERIF_OUT', VERIF)


def write_replay(prop, n, payload):
    d = ensure_dir(os.path.join(out_root(), 'replay'))
    p = os.path.join(d, '%s-%s.json' % (prop, n))
    with open(p, 'w') as f:
        json.dump(payload, f, indent=1, default=str)
    return p


def write_evidence(prop, tier, level, coverage, assumptions, wall_s, violations, extra=None):
    d = ensure_dir(os.path.join(out_root(), 'evidence'))
    ev = dict(property_id=prop, tier=tier, seed=seed(), level=level, coverage=coverage,
              assumptions=assumptions, wall_s=round(wall_s, 2), violations=violations)
    if extra:
        ev.update(extra)
    p = os.path.join(d, '%s.json' % prop)
    tmp = p + '.tmp'
    with open(tmp, 'w') as f:
        json.dump(ev, f, indent=1, default=str)
    os.replace(tmp, p)
    return p


def cargo_env():
    env = dict(os.environ)
    env['CARGO_NET_OFFLINE'] = 'true'
    env.setdefault('CARGO_TERM_COLOR', 'never')
    return env


def build_runner(name, deps, features=None, lock=True, extra_files=None, extra_deps=None):
    """Build /verif/runners/<name>/main.rs as a release binary linked against the
    working tree's crates. deps: dict crate -> relative path under the repo.
    Returns path to the binary. Raises RuntimeError on build failure."""
    root = repo_root()
    d = ensure_dir(os.path.join(BUILD, 'runners', name))
    src = os.path.join(VERIF, 'runners', name)
    ensure_dir(os.path.join(d, 'src'))
    for fn in os.listdir(src):
        if fn.endswith('.rs'):
            shutil.copy(os.path.join(src, fn), os.path.join(d, 'src', fn))
    for fn, content in (extra_files or {}).items():
        with open(os.path.join(d, 'src', fn), 'w') as f:
            f.write(content)
    toml = ['[package]', 'name = "vr_%s"' % name, 'version = "0.0.0"', 'edition = "2021"', '',
            '[[bin]]', 'name = "vr_%s"' % name, 'path = "src/main.rs"', '', '[dependencies]']
    for k, v in deps.items():
        toml.append('%s = { path = "%s" }' % (k, os.path.join(root, v)))
    toml += list(extra_deps or [])
    toml += ['', '[workspace]', '', '[profile.release]', 'debug-assertions = true', 'overflow-checks = true', 'opt-level = 2']
    with open(os.path.join(d, 'Cargo.toml'), 'w') as f:
        f.write('\n'.join(toml) + '\n')
    if lock and os.path.exists(os.path.join(root, 'Cargo.lock')):
        shutil.copy(os.path.join(root, 'Cargo.lock'), os.path.join(d, 'Cargo.lock'))
    env = cargo_env()
    env['CARGO_TARGET_DIR'] = os.path.join(BUILD, 'target-runners')
    p = subprocess.run(['cargo', 'build', '--release', '--offline', '-q'], cwd=d, env=env,
                       stdout=subprocess.PIPE, stderr=subprocess.STDOUT, text=True)
    if p.returncode != 0:
        raise RuntimeError('runner %s failed to build:\n%s' % (name, p.stdout[-3000:]))
    return os.path.join(env['CARGO_TARGET_DIR'], 'release', 'vr_%s' % name)


def run_cmd(cmd, timeout=None, cwd=None, env=None):
    t0 = time.time()
    try:
        p = subprocess.run(cmd, stdout=subprocess.PIPE, stderr=subprocess.PIPE, text=True, timeout=timeout, cwd=cwd, env=env)
        return p.returncode, p.stdout, p.stderr, time.time() - t0
    except subprocess.TimeoutExpired as e:
        return None, (e.stdout or b'').decode('utf-8', 'replace') if isinstance(e.stdout, bytes) else (e.stdout or ''), 'timeout', time.time() - t0


class Report:
    """Collects violations / known findings / undecided reasons for one property run."""

    def __init__(self, prop):
        self.prop = prop
        self.violations = []     # dict(key, obligation, replay, no_input)
        self.known = []
        self.undecided = []
        self.kf = load_known_findings()
        self._n = 0

    def violation(self, key, obligation, payload, failing_input_found):
        v = dict(key=key, obligation=obligation)
        e = match_known(self.prop, v, self.kf)
        if e is not None:
            line = 'KNOWN-FINDING: property=%s %s' % (self.prop, e.get('what', key))
            if line not in self.known:
                self.known.append(line)
                print(line)
            return False
        self._n += 1
        payload = dict(payload)
        payload.update(property=self.prop, obligation=obligation, key=key, failing_input_found=bool(failing_input_found))
        path = write_replay(self.prop, self._n, payload)
        v['replay'] = path
        self.violations.append(v)
        line = 'VIOLATION property=%s replay=%s' % (self.prop, path)
        if not failing_input_found:
            line += ' no-failing-input-found'
        print(line)
        sys.stdout.flush()
        return True

    def undecide(self, why):
        self.undecided.append(why)
        sys.stderr.write('UNDECIDED property=%s: %s\n' % (self.prop, why))

    def exit_code(self):
        if self.violations:
            return 1
        if self.undecided:
            return 2
        return 0
