"""C16 — the syntax tree loses nothing: parser event accounting (every lexed token advanced exactly once)."""
import os
import re

import common
import vprop
from rustcut import Source

PROP = 'C16'
CONTRACT_FNS = {'common_init', 'parse_file', 'advance_by_all_trivia', 'advance', 'skip_trivia', 'raw_advance', 'current', 'nth', 'is_eof', 'open',
                'advance_by_trailing_trivia', 'advance_by_non_leading_trivia', 'close', 'token_start', 'token_end', 'token_len', 'current_span',
                'report_error', 'report_error_at'}
INIT_FNS = {'common_init', 'into_file', 'from_string', 'from_shared_string', 'parse'}   # construct / consume the state
STATE = r'(events|leading|token_idx|tokens|token_starts|content)'
MUTATE = re.compile(r'self\s*\.\s*' + STATE + r'\s*(\.\s*(push|pop|clear|insert|remove|truncate|extend|append|drain|swap|retain|split_off|resize)\b|(\+|-|\*|/)?=(?!=))'
                    r'|&\s*mut\s+self\s*\.\s*' + STATE)


def frame_scan():
    """Every fn of `impl Parser` outside the contract set must not assign the accounting state."""
    S = Source(os.path.join(common.repo_root(), 'dora-parser/src/parser.rs'))
    bad = []
    nfun = 0
    for bl in S.find_impls('impl Parser'):
        d = S.depth[bl['open']] + 1
        for (name, pos) in S.fns_in(bl['open'] + 1, bl['end'] - 1, d):
            nfun += 1
            if name in CONTRACT_FNS or name in INIT_FNS:
                continue
            f = S.cut_fn(name, bl['open'] + 1, bl['end'] - 1, depth=d)
            body = f['text']
            for m in MUTATE.finditer(body):
                off = f['start'] + m.start()
                if S.mask[off]:
                    bad.append('%s (parser.rs:%d): %s' % (name, S.src.count('\n', 0, off) + 1, m.group(0).strip()))
    return nfun, bad


def lex_contract_link():
    """The parser unit uses `lex` by contract; that contract must be (part of) what the lexer unit proves. Textual check of the clauses."""
    norm = lambda t: re.sub(r'\s+', ' ', t)
    L = norm(open(os.path.join(common.VERIF, 'contracts', 'c16_lexer.vspec'), encoding='utf-8').read())
    P = norm(open(os.path.join(common.VERIF, 'contracts', 'c16_parser.vspec'), encoding='utf-8').read())
    m = re.search(r'@@spec lex ret=r (.*?)@@loop lex 0', L)
    if not m:
        return ['c16_lexer.vspec: `@@spec lex` not found']
    proved = m.group(1)
    bad = []
    for clause in ['requires blen(content@) <= u32::MAX', 'partition(content@, r.starts@)', 'r.tokens@.len() == r.starts@.len() + 1',
                   'r.tokens@[r.tokens@.len() - 1] == EOF', 'forall|i: int| 0 <= i < r.starts@.len() ==> r.tokens@[i] != EOF']:
        if clause not in proved:
            bad.append('lexer unit no longer proves: ' + clause)
    for clause in ['forall|i: int, j: int| 0 <= i < j < st.len() ==> st[i] < st[j]', '(st[i] as int) < blen(cs)']:
        if clause not in L:
            bad.append('partition() of the lexer unit no longer contains: ' + clause)
    for clause in ['fn lex(content: &str) -> (r: LexerResult) requires blen(content@) <= u32::MAX, ensures',
                   'forall|i: int, j: int| 0 <= i < j < r.starts@.len() ==> r.starts@[i] < r.starts@[j]',
                   'r.tokens@.len() == r.starts@.len() + 1, r.tokens@[r.tokens@.len() - 1] == EOF',
                   'forall|i: int| 0 <= i < r.starts@.len() ==> r.tokens@[i] != EOF']:
        if clause not in P:
            bad.append('parser unit: the assumed contract of lex changed: ' + clause)
    return bad


def _runner_spec():
    return dict(name='c16', deps={'dora-parser': 'dora-parser'}, lock=True, budget_quick_ms=3000, budget_thorough_ms=90000)


def run(tier):
    pre_und = []
    nfun = 0
    try:
        nfun, bad = frame_scan()
        if bad:
            pre_und.append('frame scan: functions outside the contract set assign the accounting state (the contract set must grow): ' + '; '.join(bad[:5]))
    except Exception as e:
        pre_und.append('frame scan failed: %s' % e)
    try:
        for w in lex_contract_link():
            pre_und.append('contract link lexer -> parser: ' + w)
    except Exception as e:
        pre_und.append('contract link check failed: %s' % e)
    units = [dict(vspec=os.path.join(common.VERIF, 'contracts', 'c16_parser.vspec')),
             dict(vspec=os.path.join(common.VERIF, 'contracts', 'c16_lexer.vspec')),
             dict(vspec=os.path.join(common.VERIF, 'contracts', 'c16_linecol.vspec'))]
    assumptions = [
        'Parser::common_init is under contract: the accounting invariant holds at construction BECAUSE of the postcondition of lex(), which the parser unit uses by contract only '
        '(external function with the clauses the lexer unit proves; a textual check on every run keeps the two statements of the contract in step); texts shorter than 2 GiB',
        'lexer unit: the cursor primitives over &str are wrapped (N7) with ASSUMED contracts: s.len() is the UTF-8 length, s[off..].chars().next() / the following character at a boundary offset; '
        'char::is_digit / is_whitespace are uninterpreted classes; is_operator is ASSUMED to accept exactly the 23 characters of its string literal (the literal itself is not read by the verifier); '
        'the `${}` nesting counters (open_braces.last_mut()) and the keyword HashMap are outside the contract; texts are shorter than 4 GiB (lex() refuses longer ones by a panic)',
        'the ~150 grammar functions behind parse_element preserve the accounting invariant and consume at least one token per element: ASSUMED; '
        'justified by the syntactic frame scan of parser.rs (they never assign events/leading/token_idx/tokens except through the functions under contract) - a scan, not a proof',
        'vx_comment_has_newline (string search in the source text) is an uninterpreted bool',
        'debug_assert!(kind <= EOF) in raw_advance is not checked (ordering on TokenKind is outside Verus)',
        'Verus handling of `&mut self.events[i]` + match on the borrowed event',
    ]
    samples = [
        dict(invariant='inv', statement='adv(events) + leading == token_idx && the `leading` tokens before token_idx are trivia && token_idx < |tokens| && tokens end with the only EOF'),
        dict(function='Parser::raw_advance', contract='requires inv; ensures inv, token_idx grows by 1 unless at EOF, events only appended'),
        dict(function='Parser::advance_by_trailing_trivia', contract='requires inv; ensures inv, token_idx unchanged, leading shrinks by the number of Advance events pushed; `_ => unreachable!()` PROVED unreachable'),
        dict(function='lex', contract='requires |content| <= u32::MAX; ensures partition(content, starts): starts[0] == 0, strictly increasing, every start on a character boundary and < |content| '
             '(so every token is non-empty and the last one ends at the end of the text), |tokens| == |starts| + 1, last token EOF, no other EOF; terminates'),
        dict(theorem='theorem_tokens_reproduce_the_text', statement='partition(cs, starts) ==> concatenation over i of cs[starts[i] .. starts[i+1] or end) == cs'),
        dict(function='Lexer::read_token', contract='requires cursor on a boundary and not at the end; ensures the cursor moved forward by at least one whole character and is on a boundary; every `unwrap`/`expect`/`unreachable!()` inside is proved safe'),
        dict(function='compute_line_column', contract='requires the line table of compute_line_starts (proved in the C20 unit: starts at 0, strictly increasing); ensures (1-based line of the last line start <= offset, 1-based byte column offset - start + 1); no index/overflow panic for offset < u32::MAX'),
        dict(function='Parser::report_error', contract='requires the token starts handed over by the lexer (strictly increasing, inside the text; established by common_init, never assigned elsewhere: frame scan); '
             'ensures the span of the reported error lies inside the text (start + len <= |content|); token_len never underflows'),
        dict(function='Parser::parse_file', contract='ensures adv(events) == |tokens| - 1 && leading == 0: every lexed token, trivia included, is advanced exactly once'),
    ]
    not_decided = ['which TokenKind the lexer assigns to a piece of text', 'build_tree replays the events into the green tree, and the red tree (ast.rs) derives offsets from green lengths: neither is under contract; both are EXECUTED by the replay runner on generated texts (tree text == source, lengths add up, node/token spans tile the file, every token text is the source slice at its span)',
                   'parser error spans that are not made from the current token (report_error_at with a computed span): executed by the runner only (the lexer\'s own error spans ARE under contract)', 're-parse equality', 'termination of parse_file (progress of parse_element is assumed)']
    return vprop.run_verus_property(PROP, tier, units, runner=_runner_spec(), assumptions=assumptions, samples=samples,
                                    not_decided=not_decided, pre_undecided=pre_und,
                                    extra_cov=dict(frame_scan=dict(functions_in_impl_parser=nfun, contract_set=sorted(CONTRACT_FNS))))


def replay(rp):
    fi = rp.get('failing_input')
    if not fi:
        print('replay file carries no concrete input (no-failing-input-found); failed obligation: %s' % rp.get('obligation'))
        print(rp.get('verus_output', ''))
        return 1
    spec = _runner_spec()
    runner = common.build_runner(spec['name'], spec['deps'], lock=True)
    rc, out, err, _ = common.run_cmd([runner, 'replay', fi['text_hex']])
    print(out.strip())
    return 1 if rc != 0 else 0
