#!/usr/bin/env python3
"""investigation helper (not a check): shrink a failing text for a replay runner.  usage: minimize.py <runner-binary> <verb> <hex>"""
import subprocess, sys


def fails(r, verb, t):
    try:
        p = subprocess.run([r, verb, t.encode().hex()], stdout=subprocess.PIPE, stderr=subprocess.PIPE, timeout=20)
        return p.returncode == 1
    except Exception:
        return False


def main():
    r, verb, h = sys.argv[1:4]
    cur = bytes.fromhex(h).decode()
    step = max(1, len(cur) // 2)
    while step >= 1:
        i = 0
        while i < len(cur):
            cand = cur[:i] + cur[i + step:]
            if cand != cur and fails(r, verb, cand):
                cur = cand
            else:
                i += step
        step //= 2
    print(repr(cur))
    p = subprocess.run([r, verb, cur.encode().hex()], stdout=subprocess.PIPE, stderr=subprocess.PIPE, text=True,
                       env=dict(__import__('os').environ, VX_BACKTRACE='1', RUST_BACKTRACE='1'))
    print('\n'.join(l for l in p.stderr.split('\n') if 'panicked' in l or 'dora_' in l or 'called' in l)[:1500])


main()
