"""Generic driver for a property decided by Verus units (+ optional replay runner)."""
import json
import os
import re
import time

import common
import vx


def run_verus_property(prop, tier, units, runner=None, assumptions=(), samples=(), not_decided=(), extra_cov=None,
                       pre_violations=(), pre_undecided=(), extra_obligations=None):
    """units: list of dict(vspec=path, extra_overlay=str|None, extra_postlude=str|None, prefix='crate::')
    runner: dict(name, deps, extra_files, search_args(seed, budget_ms) -> argv tail, parse(stdout)->dict(found, what, replay_args, tried..),
                 budget_quick_ms, budget_thorough_ms, lock=bool)
    pre_violations: [(key, obligation, payload, found_input)] produced by property-specific static steps."""
    t0 = time.time()
    rep = common.Report(prop)
    for w in pre_undecided:
        rep.undecide(w)
    cov = dict(obligations=0, discharged=0, checker_cmd='', trusted_base=[], samples=list(samples), units=[],
               functions_under_contract=[])
    workdir = common.ensure_dir(os.path.join(common.BUILD, 'vx'))
    results = []
    for u in units:
        try:
            res = vx.verify_unit(u['vspec'], workdir, extra_postlude=u.get('extra_postlude'), extra_overlay=u.get('extra_overlay'))
            results.append(res)
        except vx.Undecided as e:
            rep.undecide(str(e))
    # replay runner: concrete search on the real crate
    search = None
    runner_bin = None
    if runner:
        try:
            runner_bin = common.build_runner(runner['name'], runner['deps'], lock=runner.get('lock', True), extra_files=runner.get('extra_files'), extra_deps=runner.get('extra_deps'))
            budget = runner.get('budget_quick_ms', 3000) if tier == 'quick' else runner.get('budget_thorough_ms', 60000)
            rc, out, err, wall = common.run_cmd([runner_bin, 'search', str(common.seed()), str(budget)], timeout=budget / 1000 + 300)
            search = json.loads(out.strip().split('\n')[-1])
            search['wall_s'] = round(wall, 2)
        except Exception as e:
            rep.undecide('replay runner unavailable: %s' % str(e)[:800])
    found_input = bool(search and search.get('found'))
    payload_input = None
    if found_input:
        payload_input = dict(search)
        payload_input['replay_cmd'] = 'bin/check replay <this file>'
    nviol = 0
    any_failures = False
    for res in results:
        cov['obligations'] += res['obligations']
        cov['checker_cmd'] = (cov['checker_cmd'] + ' ; ' if cov['checker_cmd'] else '') + res['cmd']
        cov['trusted_base'] += ['[%s] %s' % (res['unit'], t) for t in res['trusted']]
        cov['units'].append(dict(unit=res['unit'], verus=res['stats'], wall_s=res['wall_s'], reach=res['reach'],
                                 functions_under_contract=res['functions_under_contract'],
                                 functions_cut=len(res['functions_cut']),
                                 rewrites_applied=res['rewrites_applied'], sources=res['sources'],
                                 obligations=res['obligations']))
        cov['functions_under_contract'] += ['%s::%s' % (res['unit'], f) for f in res['functions_under_contract']]
        seen = set()
        failed_obl = 0
        for f in res['failures']:
            if f['obligation'] in seen:
                continue
            seen.add(f['obligation'])
            failed_obl += 1
            any_failures = True
            key = 'verus:%s:%s:%s' % (res['unit'], f['function'], f['kind'])
            payload = dict(unit=res['unit'], function=f['function'], kind=f['kind'], clause=f['clause'], origin=f['origin'],
                           verus_output=f['verus_output'], generated_file=res['generated'], verus_stats=res['stats'])
            if payload_input:
                payload['failing_input'] = payload_input
            if rep.violation(key, f['obligation'], payload, found_input):
                nviol += 1
        cov['discharged'] += res['obligations'] - failed_obl if (res['ok'] or res['failures']) else 0
    if found_input and not any_failures:
        if rep.violation('runner:' + re.sub(r'[^a-z_ ]', '', str(search.get('what', '')).lower())[:60],
                      'executable form of the %s contract on the real crate' % prop, dict(failing_input=payload_input), True):
            nviol += 1
    for (key, obligation, payload, fi) in pre_violations:
        if rep.violation(key, obligation, payload, fi):
            nviol += 1
    if extra_obligations:
        cov['obligations'] += extra_obligations[0]
        cov['discharged'] += extra_obligations[1]
        cov['checker_cmd'] += ' ; ' + extra_obligations[2]
    cov['replay_runner'] = search
    cov['not_decided'] = list(not_decided)
    cov['undecided'] = rep.undecided
    if extra_cov:
        cov.update(extra_cov)
    common.write_evidence(prop, tier, 'proof', cov, list(assumptions), time.time() - t0, nviol,
                          extra=dict(known_findings=rep.known))
    return rep.exit_code()
