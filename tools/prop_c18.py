"""C18 — bytecode written by BytecodeWriter reads back as the same instruction sequence.

Verus unit c18_bytecode (writer primitives, all public emit methods, label/jump resolution, the
reader's primitives and read_instruction) against a table-driven wire format, + replay runner.
"""
import os

import common
import gen_c18
import vprop

PROP = 'C18'


def _runner_spec():
    return dict(name='c18', deps={'dora-bytecode': 'dora-bytecode'}, lock=True,
                extra_files={'gen.rs': gen_c18.generate_runner(common.repo_root())},
                budget_quick_ms=3000, budget_thorough_ms=90000)


def reader_contract_link():
    """unit c18_visitor uses read_instruction by contract; the clauses must be what unit c18_bytecode proves (textual check)."""
    import re
    norm = lambda t: re.sub(r'\s+', ' ', t)
    B = norm(open(os.path.join(common.VERIF, 'contracts', 'c18_bytecode.vspec'), encoding='utf-8').read())
    V = norm(open(os.path.join(common.VERIF, 'contracts', 'c18_visitor.vspec'), encoding='utf-8').read())
    m = re.search(r'@@spec BytecodeReader::read_instruction ret=r (.*?)@@ghost BytecodeReader::read_instruction', B)
    if not m:
        return ['c18_bytecode.vspec: `@@spec BytecodeReader::read_instruction` not found']
    proved = m.group(1)
    bad = []
    for clause in ['requires dec_wire(old(self).code@, old(self).offset as int).is_some()', 'r.0 == old(self).offset',
                   'inst_wire(r.2).op == dec_wire(old(self).code@, old(self).offset as int).unwrap().0.op',
                   'inst_wire(r.2).vs =~= dec_wire(old(self).code@, old(self).offset as int).unwrap().0.vs',
                   'inst_wire(r.2).tail == dec_wire(old(self).code@, old(self).offset as int).unwrap().0.tail',
                   'final(self).offset as int == dec_wire(old(self).code@, old(self).offset as int).unwrap().1',
                   'final(self).code@ == old(self).code@']:
        if clause not in proved:
            bad.append('unit c18_bytecode no longer proves: ' + clause)
    for clause in ['fn read_instruction(&mut self) -> (r: (usize, BytecodeOpcode, BytecodeInstruction)) requires dec_wire(old(self).code@, old(self).offset as int).is_some(), ensures r.0 == old(self).offset, '
                   'inst_wire(r.2) == dec_wire(old(self).code@, old(self).offset as int).unwrap().0, final(self).offset as int == dec_wire(old(self).code@, old(self).offset as int).unwrap().1, '
                   'final(self).code@ == old(self).code@,']:
        if clause not in V:
            bad.append('unit c18_visitor: the assumed contract of read_instruction changed')
    # dec_seq must be the same definition in both units
    d1 = re.search(r'pub open spec fn dec_seq\(s: Seq<u8>, pos: int\) -> Option<Seq<Wire>> (.*?)\} \} \}', B)
    d2 = re.search(r'pub open spec fn dec_seq\(s: Seq<u8>, pos: int\) -> Option<Seq<Wire>> (.*?)\} \} \}', V)
    if not d1 or not d2 or d1.group(1) != d2.group(1):
        bad.append('dec_seq is defined differently in the two units')
    return bad


def _pkg_runner():
    import prop_c20
    prop_c20._link_pkgs()       # Sema::new looks for `pkgs` next to an ancestor of the running executable
    return common.build_runner('c18pkg', {'dora-frontend': 'dora-frontend', 'dora-bytecode': 'dora-bytecode', 'dora-compiler': 'dora-compiler'}, lock=True,
                               extra_deps=['bincode = "2.0.0-rc.3"'])


def _package_step(tier, pre_und):
    """Package clause, EXECUTED (not proved): programs emitted by the real front end are encoded, decoded, re-encoded, truncated and corrupted."""
    import json
    import shutil
    pre_v = []
    info = None
    sc = common.scratch('c18pkg')
    try:
        runner = _pkg_runner()
        budget = 8000 if tier == 'quick' else 90000
        rc, out, err, wall = common.run_cmd([runner, 'search', str(common.seed()), str(budget)], env=dict(os.environ, VX_SCRATCH=sc), timeout=budget / 1000 + 600)
        info = json.loads(out.strip().split('\n')[-1])
        info['wall_s'] = round(wall, 1)
        if info.get('found'):
            what = info.get('what', '')
            import re
            key = 'runner:' + re.sub(r'[^a-z_ ]', '', what.split(':')[0].lower())[:60]
            payload = dict(failing_input=dict(kind=('wire' if info.get('kind') == 'wire' else 'package'), text_hex=info['text_hex'], rng=info['rng'], what=what,
                                              example=info.get('example'), seed=info.get('seed'), iter=info.get('iter')))
            pre_v.append((key, 'executable form of the package contract of C18 on the real crates: %s' % what.split(':')[0], payload, True))
        elif not info.get('programs_built'):
            pre_und.append('package runner built no program (generator templates rejected by the front end?)')
    except Exception as e:
        pre_und.append('package runner unavailable: %s' % str(e)[:600])
    finally:
        shutil.rmtree(sc, ignore_errors=True)
    return pre_v, info


def run(tier):
    pre_und = []
    extra = None
    info = {}
    try:
        extra, info = gen_c18.generate(common.repo_root())
    except Exception as e:
        pre_und.append('contract generator: %s' % e)
    runner = None
    try:
        runner = _runner_spec()
    except Exception as e:
        pre_und.append('runner generator: %s' % e)
    units = [dict(vspec=os.path.join(common.VERIF, 'contracts', 'c18_bytecode.vspec'), extra_overlay=extra)] if extra else []
    try:
        for w in reader_contract_link():
            pre_und.append('contract link reader -> visitor unit: ' + w)
    except Exception as e:
        pre_und.append('contract link check failed: %s' % e)
    try:
        units.append(dict(vspec=os.path.join(common.VERIF, 'contracts', 'c18_visitor.vspec'), extra_overlay=gen_c18.generate_visitor_overlay(common.repo_root())))
    except Exception as e:
        pre_und.append('visitor contract generator: %s' % e)
    assumptions = [
        'Register numbers fit in 32 bits (registers are indices handed out by add_register); beyond that the writer truncates `as u32` - stated as premise inst_regs_fit of the round-trip',
        'argument lists are shorter than 2^32',
        'the reader is applied to buffers produced by the writer (its precondition dec_wire(..).is_some()); behaviour on arbitrary bytes is not decided here',
        'emit_location (line-number table; closure with a tuple pattern) is kept with its real body but its frame contract is ASSUMED',
        'N8: BytecodeType / ConstPoolEntry / Location / GlobalData / ConstData are opaque placeholders: the extracted functions never inspect them',
        'composition of per-call contracts into a whole-function statement (sequence of emit calls, then generate) is by the lemmas theorem_seq_roundtrip / theorem_patched_jump_reads_back; the glue over an arbitrary caller history is not mechanised',
        'vstd specs of Vec/slice/Option/Result and of From/TryFrom dispatch',
    ]
    samples = [
        dict(function='BytecodeWriter::emit_u32_variable', contract='code\' == code ++ varint(value)  (all u32, all buffers, loop invariant)'),
        dict(function='BytecodeReader::read_u32_variable', contract='requires some varint stands at offset; ensures result == that value, offset advanced by its length, no shift overflow'),
        dict(function='BytecodeWriter::emit_new_trait_object', contract="code' == code ++ enc_wire(NEW_TRAIT_OBJECT, [dest, src, idx])"),
        dict(function='BytecodeReader::read_instruction', contract='inst_wire(result) == dec_wire(code, offset); offset advanced to the end of the instruction (70 arms)'),
        dict(lemma='theorem_wire_roundtrip', statement='shape ok && starts_at(s, pos, enc_wire(w)) ==> dec_wire(s, pos) == Some((w, pos + |enc_wire(w)|))'),
        dict(lemma='theorem_seq_roundtrip', statement='dec_seq(enc_seq(ws)) == Some(ws)'),
        dict(function='BytecodeWriter::resolve_forward_jumps', contract='every recorded 4-byte slot holds label - start; start < label or refused; all other bytes unchanged'),
    ]
    not_decided = ['(the visitor interface IS under contract, unit c18_visitor: Iterator::next, BytecodeFullIteration::read and dispatch_instruction (70 arms): a recording visitor generated from the trait/enum declarations '
                   'receives exactly dec_seq(code), one visit_instruction(start) before each callback; read_instruction enters by the contract unit c18_bytecode proves, the link is checked textually on every run)',
                   'the package clause (Program <-> bytes through the derived bincode impls; refusal of truncated / trailing / corrupted files) is NOT under contract (derive macros and bincode are outside both verifiers): '
                   'it is EXECUTED by the runner c18pkg on programs the real front end emits (decode(encode(p)) == p, same bytes again, every proper prefix and a trailing byte refused, corrupted files decoded in a child process: never a crash): sampled',
                   'dora-compiler/src/wire.rs (hand-written BytecodeType encoding between compiler and runtime): decode(encode(t)) == t with nothing left over, executed on 20 000 generated types per run (sampled)',
                   'build-from-package == build-from-source', 'Dora-side readers (pkgs/boots/bytecode/reader.dora, deserializer.dora)',
                   'jump tables (add_const_jump_table / resolve_jump_tables: Switch targets live in the constant pool) are not under contract; the runner checks them on every generated sequence (sampled)', 'line-number table contents']
    pkg_v, pkg_info = _package_step(tier, pre_und)
    return vprop.run_verus_property(PROP, tier, units, runner=runner, assumptions=assumptions, samples=samples,
                                    not_decided=not_decided, pre_undecided=pre_und, pre_violations=pkg_v,
                                    extra_cov=dict(format_table=dict(opcodes=info.get('opcodes'), writer_methods=info.get('writer_methods')),
                                                   package_runner=pkg_info))


def replay(rp):
    fi = rp.get('failing_input')
    if not fi:
        print('replay file carries no concrete input (no-failing-input-found); failed obligation: %s' % rp.get('obligation'))
        print(rp.get('verus_output', ''))
        return 1
    if fi.get('kind') == 'wire':
        rc, out, err, _ = common.run_cmd([_pkg_runner(), 'replay-wire', str(fi['seed']), str(fi['iter'])], timeout=600)
        print(out.strip())
        return 1 if rc != 0 else 0
    if fi.get('kind') == 'package':
        import shutil
        sc = common.scratch('c18pkg')
        try:
            rc, out, err, _ = common.run_cmd([_pkg_runner(), 'replay', fi['text_hex'], str(fi['rng'])], env=dict(os.environ, VX_SCRATCH=sc), timeout=600)
        finally:
            shutil.rmtree(sc, ignore_errors=True)
        print(out.strip())
        return 1 if rc != 0 else 0
    spec = _runner_spec()
    runner = common.build_runner(spec['name'], spec['deps'], lock=True, extra_files=spec['extra_files'])
    rc, out, err, _ = common.run_cmd([runner, 'replay', str(fi['seed']), str(fi['iter'])])
    print(out.strip())
    return 1 if rc != 0 else 0
