"""rustcut — a string/comment-aware cutter of Rust items.

Used by vx (Verus route) and kx (Kani route) to take function / impl / struct /
enum / const items out of the working tree *verbatim*.  It is deliberately not a
parser: it finds an item header with a regular expression at a position that is
code (not inside a comment, string or char literal) and cuts up to the matching
closing brace (or `;`).
"""
import re


class CutError(Exception):
    pass


def code_mask(src):
    """mask[i] is True iff src[i] is code (not comment / string / char literal)."""
    n = len(src)
    mask = [True] * n
    i = 0
    while i < n:
        c = src[i]
        if c == '/' and i + 1 < n and src[i + 1] == '/':
            j = src.find('\n', i)
            if j < 0:
                j = n
            for k in range(i, j):
                mask[k] = False
            i = j
        elif c == '/' and i + 1 < n and src[i + 1] == '*':
            depth = 1
            j = i + 2
            while j < n and depth > 0:
                if src.startswith('/*', j):
                    depth += 1
                    j += 2
                elif src.startswith('*/', j):
                    depth -= 1
                    j += 2
                else:
                    j += 1
            for k in range(i, j):
                mask[k] = False
            i = j
        elif c == '"' or (c == 'b' and i + 1 < n and src[i + 1] == '"' and not _ident_before(src, i)):
            if c == 'b':
                i += 1
            j = i + 1
            while j < n and src[j] != '"':
                if src[j] == '\\':
                    j += 1
                j += 1
            for k in range(i + 1, min(j, n)):
                mask[k] = False
            i = j + 1
        elif c == 'r' and not _ident_before(src, i) and re.match(r'r#*"', src[i:i + 12]):
            m = re.match(r'r(#*)"', src[i:i + 12])
            closer = '"' + m.group(1)
            j = src.find(closer, i + len(m.group(0)))
            if j < 0:
                j = n
            for k in range(i + len(m.group(0)), j):
                mask[k] = False
            i = j + len(closer)
        elif c == "'":
            # char literal or lifetime
            if i + 1 < n and src[i + 1] == '\\':
                j = src.find("'", i + 2)
                # '\'' case
                if j == i + 2:
                    j = src.find("'", i + 3)
                for k in range(i + 1, j):
                    mask[k] = False
                i = j + 1
            elif i + 2 < n and src[i + 2] == "'":
                mask[i + 1] = False
                i += 3
            else:
                # multi-byte char literal like '☃' is one python char, handled above;
                # otherwise a lifetime
                i += 1
        else:
            i += 1
    return mask


def _ident_before(src, i):
    return i > 0 and (src[i - 1].isalnum() or src[i - 1] == '_')


def match_close(src, mask, i, open_c='{', close_c='}'):
    """src[i] == open_c (code). Return index of the matching closer."""
    assert src[i] == open_c
    depth = 0
    n = len(src)
    j = i
    while j < n:
        if mask[j]:
            if src[j] == open_c:
                depth += 1
            elif src[j] == close_c:
                depth -= 1
                if depth == 0:
                    return j
        j += 1
    raise CutError("unbalanced %s at offset %d" % (open_c, i))


def brace_depths(src, mask):
    d = 0
    out = [0] * (len(src) + 1)
    for i, c in enumerate(src):
        out[i] = d
        if mask[i]:
            if c == '{':
                d += 1
            elif c == '}':
                d -= 1
    out[len(src)] = d
    return out


def line_of(src, off):
    return src.count('\n', 0, off) + 1


def _line_start(src, off):
    j = src.rfind('\n', 0, off)
    return j + 1


def _extend_back_over_attrs(src, start):
    """Extend `start` (a line start) backwards over attribute / doc-comment lines."""
    while True:
        if start == 0:
            return start
        prev_end = start - 1
        prev_start = _line_start(src, prev_end)
        line = src[prev_start:prev_end].strip()
        if line.startswith('#[') or line.startswith('///'):
            start = prev_start
        else:
            return start


class Source:
    def __init__(self, path, text=None):
        self.path = path
        if text is None:
            with open(path, encoding='utf-8') as f:
                text = f.read()
        self.src = text
        self.mask = code_mask(text)
        self.depth = brace_depths(text, self.mask)

    def _find_header(self, regex, lo=0, hi=None, depth=None):
        hi = len(self.src) if hi is None else hi
        res = []
        for m in re.finditer(regex, self.src[lo:hi], re.M):
            pos = lo + m.start()
            if not self.mask[pos]:
                continue
            if depth is not None and self.depth[pos] != depth:
                continue
            res.append(pos)
        return res

    def _cut_braced(self, pos, what):
        """From a header at pos, cut to the matching close brace. Returns (start,end_exclusive,body_open)."""
        src, mask = self.src, self.mask
        j = pos
        pdepth = 0
        n = len(src)
        while j < n:
            if mask[j]:
                c = src[j]
                if c in '([':
                    pdepth += 1
                elif c in ')]':
                    pdepth -= 1
                elif c == '{' and pdepth == 0:
                    break
                elif c == ';' and pdepth == 0:
                    # declaration without body
                    start = _extend_back_over_attrs(src, _line_start(src, pos))
                    return start, j + 1, None
            j += 1
        if j >= n:
            raise CutError("no body for " + what)
        close = match_close(src, mask, j)
        start = _extend_back_over_attrs(src, _line_start(src, pos))
        return start, close + 1, j

    def cut_fn(self, name, lo=0, hi=None, depth=None, nth=0):
        """Cut `fn name` (first at given depth within [lo,hi)). Returns dict."""
        hits = self._find_header(r'\bfn\s+' + re.escape(name) + r'\b\s*[(<]', lo, hi, depth)
        if len(hits) <= nth:
            raise CutError("fn %s not found in %s" % (name, self.path))
        pos = hits[nth]
        start, end, body = self._cut_braced(pos, 'fn ' + name)
        return dict(kind='fn', name=name, start=start, end=end, body_open=body,
                    text=self.src[start:end], line=line_of(self.src, start))

    def cut_item(self, kind, name):
        """kind in struct|enum|const|static|type|trait|mod."""
        if kind in ('const', 'static'):
            hits = self._find_header(r'\b' + kind + r'\s+' + re.escape(name) + r'\s*:', depth=None)
            if not hits:
                raise CutError("%s %s not found in %s" % (kind, name, self.path))
            pos = hits[0]
            # ends at ';' at same paren depth
            j = pos
            pd = 0
            while True:
                if self.mask[j]:
                    c = self.src[j]
                    if c in '([{':
                        pd += 1
                    elif c in ')]}':
                        pd -= 1
                    elif c == ';' and pd == 0:
                        break
                j += 1
            start = _extend_back_over_attrs(self.src, _line_start(self.src, pos))
            return dict(kind=kind, name=name, start=start, end=j + 1, body_open=None,
                        text=self.src[start:j + 1], line=line_of(self.src, start))
        hits = self._find_header(r'\b' + kind + r'\s+' + re.escape(name) + r'\b')
        if not hits:
            raise CutError("%s %s not found in %s" % (kind, name, self.path))
        pos = hits[0]
        start, end, body = self._cut_braced(pos, kind + ' ' + name)
        return dict(kind=kind, name=name, start=start, end=end, body_open=body,
                    text=self.src[start:end], line=line_of(self.src, start))

    def find_impls(self, header):
        """All impl blocks whose header, whitespace-normalised, equals `header`
        (e.g. 'impl BytecodeWriter', 'impl From<BytecodeOpcode> for u8')."""
        want = re.sub(r'\s+', ' ', header.strip())
        out = []
        for pos in self._find_header(r'^\s*(?:unsafe\s+)?impl\b'):
            # pos is at line-leading whitespace; find 'impl'
            p = self.src.find('impl', pos)
            j = p
            while not (self.mask[j] and self.src[j] == '{'):
                j += 1
            hdr = re.sub(r'\s+', ' ', self.src[p:j].strip())
            if hdr == want:
                close = match_close(self.src, self.mask, j)
                out.append(dict(header=hdr, start=_extend_back_over_attrs(self.src, _line_start(self.src, p)),
                                open=j, end=close + 1, line=line_of(self.src, p)))
        return out

    def fns_in(self, lo, hi, depth):
        """Names of all fns declared at the given brace depth in [lo,hi)."""
        out = []
        for m in re.finditer(r'\bfn\s+([A-Za-z_][A-Za-z0-9_]*)', self.src[lo:hi]):
            pos = lo + m.start()
            if self.mask[pos] and self.depth[pos] == depth:
                out.append((m.group(1), pos))
        return out
